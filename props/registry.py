"""Single source for MANIFEST.json (bin/mkmanifest).  CLAIMED maps property id -> manifest fields."""
TITLES = {}
CLAIMED = {
    "C04": dict(
        text=("TLC model-checks a sender/receiver composition (MC_LiveWire: all elisions, real-time placements, chunkings, clocks within small "
              "constants) showing the receiver model LiveDecoder delivers exactly what is sent; the real decoder is bound to that model both ways: "
              "TLC's dumped state graph is walked through the real code (every model state, every input suffix to a fixed depth) and thousands of "
              "recorded real sessions are replayed through the spec's Step operator by TLC (content, order, chunk and time stamp of every delivery)."),
        note="Trusted: TLC, the reading of MIDI 1.0 in spec/LiveDecoder.tla, the recording harness. FD may be surfaced or skipped. Bounded alphabet for the exhaustive part; random sessions for full byte values.",
        technique="TLA+ receiver model; TLC exhaustive model check; state-graph walk into the real decoder; TLC trace validation of recorded sessions",
        ref="DESIGN.md section 4 C04"),
    "C06": dict(
        text=("TLC exhaustively checks the receiver model over all byte-class streams (well-formedness, resynchronisation from every reachable "
              "state, bounded sysex, running status) and the real decoder is shown to conform: graph walk of all 4.5k model states x all suffixes at "
              "listener and driver level, plus trace validation of garbage / messy / garbage-prefixed sessions incl. 100 kB streams; panics are "
              "recorded outcomes and rejected by the trace spec."),
        note="Trusted: TLC, spec/LiveDecoder.tla, harness recording. The walk is exhaustive only to the stated suffix depth; beyond it random sessions.",
        technique="TLA+ receiver model; TLC invariants (OutWellFormed, Resync, ...); state-graph walk; TLC trace validation",
        ref="DESIGN.md section 4 C06"),
    "C14": dict(
        text=("On the model TLC checks the lock-step product of a filtered and an all-on decoder (FilterExact). On the code, every session and every "
              "graph-walk sequence is run twice (option set o / all on) and TLC checks deliveries(o) = Project(o, deliveries(all on)) in content, "
              "order, chunk and time stamp. The process-backed driver's own copy of the filter is checked the same way with twin histories on the real midicatdrv against the stand-in helper pair."),
        note="Judges only the relation between the two real runs (what the all-on run must be is C04/C06).",
        technique="TLA+ lock-step product model checked by TLC; twin-run trace validation by TLC; twin graph walk",
        ref="DESIGN.md section 4 C14"),
}
CLAIMED.update({
    "C01": dict(
        text=("TLC proves on the model (MC_SmfRoundTrip, every bounded API history, both running-status options, metric and SMPTE divisions) that "
              "Decode(Encode(Canon f)) = Canon f; the real library is bound to it by trace validation: random API histories are executed, written and read back by the "
              "real code and TLC replays each history through Build/Canon and compares format, division, track count and every (delta, message bytes)."),
        note="Trusted: TLC, SmfWrite!Build/Canon as the meaning of an API history (DESIGN C.1), harness recording. Domain exclusions listed in evidence assumptions.",
        technique="TLA+ model of builder/writer/reader; TLC model check of the round-trip theorem; TLC trace validation of recorded write/read-back executions",
        ref="DESIGN.md section 4 C01"),
    "C02": dict(
        text=("The independent decoder IS the TLA+ module SmfParse. TLC checks a separately written generator grammar against it (MC_SmfGen) and then judges the real "
              "reader: every complete file of TLC's own state space and thousands of byte-level generated valid files are read by the real code and compared with "
              "Decode(bytes) evaluated by TLC."),
        note="Trusted: TLC, SmfParse as the reading of SMF 1.0. The Go byte generator is only an input source (a file the spec rejects aborts with exit 2).",
        technique="TLA+ decoder specification as oracle; TLC-generated files replayed into the real reader; TLC trace validation of byte-level generated files",
        ref="DESIGN.md section 4 C02"),
    "C03": dict(
        text=("The strict parser is SmfParse!Decode with its canon flag, evaluated by TLC on the bytes the real writer produced for random API histories; it must "
              "recover Canon(history); size, determinism checked per record. VLQ: TLC checks inverse/canonical/uniqueness on the model (MC_Vlq); the real writer/reader are "
              "swept over delta values through the public API (quick: boundaries+65k random; thorough: all 2^28) with a transcribed canonical-form invariant that TLC "
              "re-validates on samples every run."),
        note="Trusted: TLC, SmfParse/Vlq modules, the 10-line Go VLQ cutter + vlqCanonical transcription (validated against TLC on >=16k samples per run).",
        technique="TLA+ strict parser evaluated by TLC on real writer output; exhaustive VLQ sweep against a TLC-validated invariant",
        ref="DESIGN.md section 4 C03"),
    "C05": dict(
        text=("Every proper prefix of valid files and thousands of arbitrary/mutated byte strings are read by the real reader under recover, watchdog and allocation "
              "measurement; TLC decodes the original with the specification and checks each outcome is an error or an event-for-event prefix, never a panic/timeout, "
              "and that memory stays proportional to the input."),
        note="Trusted: TLC, SmfParse, harness measurement (recover, 30 s watchdog, TotalAlloc). Memory bound is a generous constant (1 KiB/byte + 8 MiB).",
        technique="TLC trace validation of truncation-at-every-offset and mutation experiments against the TLA+ decoder",
        ref="DESIGN.md section 4 C05"),
    "C09": dict(
        text=("The specification's decoder is a function of the bytes alone (no notion of fragments); the real reader is run under every single split point and a set "
              "of fragmenting readers and each result is compared with the in-memory baseline; TLC judges the recorded runs."),
        note="Judges only schedule-independence (relation between runs of the real code); content of the baseline is C02/C05.",
        technique="schedule enumeration on the real reader, records judged by the TLC trace spec",
        ref="DESIGN.md section 4 C09"),
    "C10": dict(
        text=("For every byte offset of the output a failing destination (two failure modes) and for every byte offset of the input a sticky read error are injected "
              "into the real WriteTo/ReadFrom; TLC judges each record: fault before the end => error; no fault => nil and exact size; the number of bytes a reader "
              "needs is computed by the TLA+ decoder."),
        note="Trusted: TLC, SmfParse (end of last track), harness fault injectors.",
        technique="fault enumeration at every offset, records judged by the TLC trace spec with the TLA+ decoder",
        ref="DESIGN.md section 4 C10"),
})
CLAIMED.update({
    "C07": dict(
        text=("The MIDI 1.0 encoding of every constructor and the answer of every accessor are operators of MidiMessage.tla (model-checked over boundary arguments). "
              "TLC exports them as decision tables; a Go sweep calls every constructor over its whole argument domain (7 M calls quick, 90 M thorough), runs every accessor on "
              "each result and sends every in-range message through the loopback port, comparing with the tables; TLC itself judges all boundary tuples and >=10^4 random "
              "full records per run on the concrete arguments, which also validates the sweep's composition glue."),
        note="Trusted: TLC, MidiMessage.tla, the ~40-line table composition in the sweep (validated by TLC each run).",
        technique="TLC-exported decision tables + exhaustive sweep of the real constructors/accessors/loopback; TLC trace validation of sampled calls",
        ref="DESIGN.md section 4 C07"),
    "C08": dict(
        text=("ClassOk (exactly one category, category allowed by the MIDI status table, all accepting accessors of one type, accepting implies reported type) is a TLA+ "
              "predicate. A Go sweep asks the real library everything about 10.6 M (quick) / all 16.8 M (thorough) strings of length 0..3 at both message levels under "
              "recover and evaluates the mirrored predicate with the TLC-exported tables; TLC judges >=2*10^4 sampled observations incl. 4..64-byte sysex-/meta-shaped strings."),
        note="Trusted: TLC, MidiMessage.tla, Go mirror of ClassOk (validated by TLC each run).",
        technique="TLC-exported tables + exhaustive sweep of the real classification functions; TLC trace validation of sampled observations",
        ref="DESIGN.md section 4 C08"),
})
CLAIMED.update({
    "C17": dict(
        text=("Ports.tla specifies the lifecycle (open/listen/send/stop/close, start failure, concurrent senders) for both drivers; TLC checks its invariants. "
              "testdrv: EVERY protocol-respecting call history up to length 7 (quick) / 9 (thorough) is taken from TLC's state graph and executed on a fresh real port pair, "
              "return value and deliveries compared after every call. midicatdrv: a PlusCal model of the concurrent in port (client, reader and control goroutines, RWMutex "
              "with writer preference, capacity-1 channels, helper process, start failure) is model-checked for deadlock freedom, no-callback-after-stop and lock discipline "
              "(with a regression config of the pre-fix start-failure path that must deadlock); the real driver runs seeded random histories incl. 2-4 concurrent senders and "
              "start failures against a stand-in helper pair (two real child processes joined by a datagram socket), built with -race, every call under a 30 s watchdog, and "
              "TLC judges each recorded history with Ports!PStep / ParOk (incl. listen options, message classes, stop racing with a delivery in flight). The PlusCal model is checked to "
              "refine the abstract monitor McatEvents of the port's critical sections, and the verif hook's events recorded from the real in port (lock order) are validated against the same monitor."),
        note=("Data-race freedom is observed by the Go race detector during the recorded runs (not a TLA+ notion). 'Never called again' is read as: no listener code runs once stop() has returned. "
              "Helper processes dying by themselves are out of scope."),
        technique="TLA+/PlusCal lifecycle + concurrency model checked by TLC; state-graph history walk (testdrv); TLC trace validation of recorded histories (midicatdrv under -race)",
        ref="DESIGN.md section 4 C17"),
})
CLAIMED.update({
    "C11": dict(
        text=("Tempo.tla defines the exact integral of the tempo map as an integer numerator (BigNat limbs, since TLC integers are 32 bit) and the tolerance predicate of the "
              "property; TLC model-checks monotonicity, the segment algebra and the equal-tick rule on small maps (and BigNat against native integers). Real files with tempo maps "
              "(raw 24-bit values, repeated ticks, >12 changes on a tick, ticks beyond 2^32) are written, read back and queried through SMF.TimeAt and TracksReader.Do; TLC "
              "recomputes the integral exactly and judges every query, monotonicity and the Duration/Ticks inverse law."),
        note="Trusted: TLC, Tempo/BigNat modules, harness number encoding (limbs re-checked by TLC against decimal digits), float64 bit decomposition. Horizon 2^41 us.",
        technique="TLA+ tempo-map model with exact big-number arithmetic; TLC model check; TLC trace validation of recorded TimeAt/Do/Duration/Ticks results",
        ref="DESIGN.md section 4 C11"),
    "C13": dict(
        text=("Recorder.tla composes the receiver model LiveDecoder (reused), the channel-message filter, the exact tick conversion and the SMF writer/strict parser; TLC checks on the "
              "model that only channel messages ever enter a track and that the written file is canonical. Real recordings on the testdrv virtual clock (all stream kinds of C04/C06, "
              "20..400 BPM, resolutions 24..15360) are judged by TLC: recorded messages = the model's channel messages, deltas within one tick of the exact conversion of the arrival "
              "stamp differences, strict parse of the written bytes, read-back equal."),
        note="Arrival stamps are derived by TLC from the receiver model (RecordFrom owns the listener). First delta unconstrained (unknown clock origin). Trusted: TLC, LiveDecoder/SmfParse/SmfWrite/Recorder modules, harness recording.",
        technique="TLA+ composition model (receiver o tick conversion o SMF writer/parser) checked by TLC; TLC trace validation of recorded sessions",
        ref="DESIGN.md section 4 C13"),
    "C15": dict(
        text=("Meta.tla specifies every meta constructor's encoding (FF type VLQ-length payload), the payload accessor, the key table from the circle of fifths and the 26 named keys from "
              "music theory, time-signature denominators and the 24-bit tempo field with exact rational arithmetic; TLC model-checks the inverse laws on boundary lengths and all key/denominator "
              "tuples. Thousands of real constructor calls (all boundary lengths to 20000, all 65536 sequence numbers, all key tuples and named constructors, dyadic tempi) with the answers of "
              "all 19 GetMeta* accessors are judged by TLC."),
        note="Trusted: TLC, Meta.tla, harness recording incl. float decomposition (Frexp). Accessor behaviour on foreign message types is only required to reject.",
        technique="TLA+ codec specification checked by TLC; TLC trace validation of recorded constructor/accessor calls",
        ref="DESIGN.md section 4 C15"),
    "C18": dict(
        text=("Sysex.tla specifies Roland-style build/parse/checksum and the MMC command / locate layouts; TLC model-checks parse o build = id, checksum sum = 0 mod 128, rejection of every "
              "single-byte corruption and that anything still accepted is a built message. On the real code every (3+n+1) x 127 single-byte corruption of each generated message is parsed "
              "(millions per run); TLC judges the built bytes, the parsed value, every accepted corruption and a 200-per-message sample; all 127 x 63 MMC pairs and boundary/random locate codes."),
        note="Trusted: TLC, Sysex.tla, harness recording. Framing/header byte corruptions only on the model.",
        technique="TLA+ codec specification checked by TLC; exhaustive single-byte corruption on real code; TLC trace validation",
        ref="DESIGN.md section 4 C18"),
    "C20": dict(
        text=("Sequencer.tla lays bars end to end on the 32nd grid and states the export clauses (event ticks, note ends, signature changes, common end tick, SMF0 = SMF1 content); TLC model-checks "
              "the layout and that reference/mutant exporters are accepted/rejected as they should. Random songs over the full domain (1..40 bars, 118 signatures, 8 tracks, notes across bar lines) "
              "are exported by the real ToSMF0/ToSMF1 and judged by TLC on absolute ticks."),
        note="Trusted: TLC, Sequencer.tla, harness delta-to-absolute-tick summation. Order of same-tick events, track mapping and note-off encoding are left free.",
        technique="TLA+ layout specification checked by TLC; TLC trace validation of recorded exports",
        ref="DESIGN.md section 4 C20"),
})
CLAIMED.update({
    "C12": dict(
        text=("Player.tla specifies playback as per-track cursors with Send enabled only for a head of minimal scheduled time (ties free), Skip for non-playable events, the port map rule and "
              "never-early; TLC checks on the model that every behaviour is a stable merge sending each channel message exactly once, and that the trace acceptor accepts exactly those. Real plays "
              "(files with >=13 events per tick, 1-6 tracks, duplicate messages across tracks, all selections and port maps) are recorded through fake out ports and TLC decides whether each "
              "observed send sequence is explainable, inferring the unlogged source track of every send; one play of 140 000 (thorough: 262 144) distinguishable events per run is judged without search by Player!AttrLin, which TLC shows equal to the text of the property on every model behaviour and on corrupted copies."),
        note="Only the lower bound of send instants is judged (load cannot cause an alarm). Scheduled times are the library's own (their correctness is C11). Sysex may be sent or skipped.",
        technique="TLA+ player model checked by TLC; TLC trace validation with inference of unlogged nondeterminism",
        ref="DESIGN.md section 4 C12"),
    "C16": dict(
        text=("Convert.tla states the conversion clauses (division kept, multiset of (absolute tick, message) preserved, placement by channel, per-track order, termination) and an abstract stable "
              "partition; TLC checks the abstract conversion satisfies them and that seven wrong conversions are rejected. The real ConvertToSMF1 is run on the exhaustive small scope of the model "
              "config and on random single-track files (to 400 events, 16 channels, >=13 events on a tick) and TLC judges every record."),
        note="Order of channel tracks, terminator position and an empty first track are left free. Sum of source deltas below 2^30.",
        technique="TLA+ conversion specification checked by TLC; TLC trace validation of recorded conversions",
        ref="DESIGN.md section 4 C16"),
    "C19": dict(
        text=("MidicatLine.tla specifies the line encoder, the grammar and a character-level reader automaton; TLC checks losslessness under all fragmentations, one record per line, resumption after "
              "malformed lines (107 k / 1.5 M states). Binding: the texts of TLC's dumped state graph are fed to the real ReadAndConvert under several delivery modes (G), and seeded record sequences "
              "(int32 stamps, 1..2000 bytes) with the mutation kinds and fragmenting readers are judged call by call by TLC (T); the REAL midicatdrv out and in ports run through a stand-in helper pair and "
              "TLC checks the lines the out port wrote (verbatim, also under concurrent senders) against the grammar and the records the in port delivered against the messages sent."),
        note="Lower-case hex may be accepted or rejected; how much of a malformed line an erroring call consumes is free as long as later records are unmodified originals.",
        technique="TLA+ reader automaton checked by TLC; TLC-generated texts replayed into the real reader; TLC trace validation",
        ref="DESIGN.md section 4 C19"),
})
NOT_YET = {}
