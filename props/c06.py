"""C06 -- the live decoder survives arbitrary bytes and resynchronises like a MIDI receiver."""
from props import live


def run(ctx):
    q = ctx.quick
    ctx.cov["rule"] = ("sessions = (options, buffer size, chunked byte stream) on the real decoder at listener level (testdrv+ListenTo) "
                       "and driver level (drivers.Reader); generated as garbage / messy wire / garbage-prefix+wire; distinct by content hash; "
                       "non-trivial = at least 4 bytes on the wire.  Graph walk: every state of TLC's MC_LiveG state graph via its access path, "
                       "then every input suffix of the given depth.")
    ctx.cov["checker_cmd"] = "tlc MC_LiveDecoder (invariants OutWellFormed, Resync, RunningStatus, SysexBounded, ModeConsistent) ; tlc -dump dot MC_LiveG -> vh live-walk ; tlc Trace_Live"
    ctx.cov["trusted_base"] = ["TLC", "spec/LiveDecoder.tla as the reading of the MIDI 1.0 receiver model", "Go harness recording (cmd/vh/live.go)",
                               "walker's driver-level view glue (trim to 1+NData, drop lone F7 marker) -- every walker alarm is re-judged by TLC"]
    ctx.assumptions += ["0xFD (undefined real-time) may be surfaced or skipped; 0xF9 is delivered (library defines Tick)",
                        "listener-level clock origin fixed by a calibration Start byte sent first"]
    # 1. the specification satisfies C06 on the model, exhaustively over the class alphabet
    ctx.model_check("MC_LiveDecoder", coverage=not q)
    # 2. G: TLC's state graph walked through the real decoder
    gp, nn, ne = live.graph(ctx, "MC_LiveG.cfg" if q else "MC_LiveG_thorough.cfg")
    fails = []
    depth = 2 if q else 3
    for lvl in ("listen", "reader"):
        res, f = live.walk(ctx, gp, lvl, depth, 0 if q else 4000, "model")
        fails += f
        ctx.count(res["sequences"])
    # closure: every byte stream of EVERY length over the alphabet (driver level)
    fails += live.closure(ctx, gp)
    ctx.cov["exhaustive_walk"] = {"graph_nodes": nn, "graph_edges": ne, "suffix_depth": depth}
    # 3. T: recorded sessions judged by the specification
    recs = live.gen_sessions(ctx, 600 if q else 6000, 2 if q else 12, ctx.seed, "model")
    fails += live.validate_sessions(ctx, recs, "C06")
    ctx.count(len(recs), [hash(str(r["chunks"])) for r in recs if sum(len(c["bytes"]) for c in r["chunks"]) >= 4],
              [{"lvl": r["lvl"], "cap": r["cap"], "chunks": r["chunks"][:4], "feat": r["feat"]} for r in recs[:3]])
    ctx.report(fails, live.confirm_factory(ctx))
    live.finish(ctx)


replay = live.replay
