"""X06 (extension) -- time formats (MetricTicks, TimeCode, division word), note lengths, tick <-> time conversion, tempo changes and
key signatures of package smf agree with SMF 1.0, the package docs and the circle of fifths.
Property text: headers of spec/TimeFormat.tla and spec/KeySig.tla."""
import copy
import json
import os
from vlib.engine import Failure, Machinery

RULE = ("X06 (extension; stated in spec/TimeFormat.tla + spec/KeySig.tla from SMF 1.0 <division>, meta event FF 59, the package docs and music theory): "
        "R MetricTicks zero value = 960, Resolution = Ticks4th.  N Ticks8th..Ticks1024th = resolution / 2^k rounded to a nearest integer, all 65536 values.  "
        "S In64ths = floor(16 ticks / resolution) for ticks < 2^28.  D/T Duration = 60e9 ticks / (bpm resolution) ns, Ticks = ns resolution bpm / 60e9, each rounded to "
        "nearest with a float64 allowance of 2^-50 relative (bpm any float64 in [1, 1000] taken as the exact dyadic fraction; resolutions 0..65535; results below 2^63 ns / 2^32 ticks); "
        "I both non-decreasing, Ticks(Duration(n)) = n and Duration(Ticks(d)) within one tick + 1 ns of d (below 2^53 ns).  "
        "W division word: WriteTo puts q for MetricTicks 1..32767, 960 for 0, (256-fps)*256+sub for the four SMPTE rates; for any other TimeCode an error or a word that denotes it "
        "(never a nil error and a file of another time format); ReadFrom returns what the word denotes, all 2^16 words, all 256x256 TimeCode values; SMPTE constructors.  "
        "P String() shows resolution / rate and subframes.  C TempoChanges.TempoAt / TempoChangeAt = last change at or before the tick (120 before); SMF.TempoChanges() of a "
        "file read back = its tempo events.  K every key constructor = FF 59 02 sf mi of the circle of fifths, GetMetaKey / GetMetaKeySig return tonic, count, mode, flat flag (and TRUE with nil pointers), "
        "Key.String() names the key (up to six accidentals); MetaKey / GetMetaKeySig inverse for 0..7 accidentals; all 15 x 2 raw signatures.  "
        "Binding T: every record (arguments + everything returned) is judged by TLC with the operators TLC model-checked in MC_TimeFormat.  distinct = (ev, arguments)")

BLOCKS = {"notelen": 10, "hdrm": 6, "hdrt": 6, "rdword": 3, "ctor": 2}
RK = {0: "MetricTicks(%d)", 1: "TimeCode{%d, %d}", 2: "error", 3: "other type"}


def head(r):
    h = {"ev": r["ev"], "a": r["a"], "nums": r["nums"], "name": r["name"], "msg": r["msg"] if r["ev"] == "keyraw" else []}
    return h


def key(r):
    return (r["ev"], tuple(r["a"]), tuple(tuple(n) for n in r["nums"][:1]), r["name"], tuple(r["msg"]) if r["ev"] == "keyraw" else ())


def num(ds):
    return int("".join(map(str, ds))) if ds else 0


def sbig(b):
    return (-1 if b["neg"] else 1) * num(b["d"])


def got(k, a, b):
    return RK[k] % ((a,) if k == 0 else (a, b) if k == 1 else ())


def clause(info):
    why = info.get("why") or ""
    return "panic" if why == "panic" else why.split(":")[0]


def signature(r, info):
    return "%s:%s" % (r["ev"], clause(info))


def describe(r, info):
    ev, a, at, why = r["ev"], r["a"], info.get("at", 0), info.get("why")
    tail = " -- %s%s" % (why, (" [panic: %s]" % r["panic"]) if r["panic"] else "")
    try:
        if ev == "notelen":
            o = r["outs"][10 * at:10 * at + 10]
            return "MetricTicks(%d): Resolution %s Ticks4th %s 8th..1024th %s" % (a[0] + at, o[0], o[1], o[2:]) + tail
        if ev in ("hdrm", "hdrt"):
            o = r["outs"][6 * at:6 * at + 6]
            tf = "MetricTicks(%d)" % (a[0] + at) if ev == "hdrm" else "TimeCode{FramesPerSecond: %d, SubFrames: %d}" % (a[0], at)
            n = sum(1 for i in range(256) if r["outs"][6 * i] == 0 and (r["outs"][6 * i + 3], r["outs"][6 * i + 4], r["outs"][6 * i + 5]) !=
                    ((0, a[0] + i, 0) if ev == "hdrm" else (1, a[0], i)))
            return "SMF with TimeFormat %s: WriteTo %s, division bytes %02X %02X, ReadFrom of that file -> %s (%d of the 256 values of this block come back different)" % (
                tf, "failed" if o[0] else "returned nil", o[1] & 255, o[2] & 255, got(o[3], o[4], o[5]), n) + tail
        if ev == "rdword":
            o = r["outs"][3 * at:3 * at + 3]
            return "file with division word %02X %02X: ReadFrom -> %s" % (a[0], at, got(*o)) + tail
        if ev == "ctor":
            return "SMPTE constructor %d(%d) -> TimeCode{%d, %d}" % (a[0], at, r["outs"][2 * at], r["outs"][2 * at + 1]) + tail
        if ev == "str":
            return "%s.String() = %r" % ("MetricTicks(%d)" % a[1] if a[0] == 0 else "TimeCode{%d, %d}" % (a[1], a[2]), bytes(r["strs"][0]).decode("latin1")) + tail
        if ev == "in64":
            return "MetricTicks(%d).In64ths(%d) = %d" % (a[0], num(r["nums"][at - 1]), sbig(r["bigs"][at - 1])) + tail
        if ev in ("dur", "ticks"):
            k = len(r["nums"]) - 1
            bpm = "%d*2^%d" % (num(r["nums"][0]), a[1])
            x, y, z = num(r["nums"][at]), sbig(r["bigs"][at - 1]), sbig(r["bigs"][k + at - 1])
            if ev == "dur":
                return "MetricTicks(%d), bpm = %s (%.17g): Duration(%d ticks) = %d ns, Ticks(that) = %d" % (a[0], bpm, num(r["nums"][0]) * 2.0 ** a[1], x, y, z) + tail
            return "MetricTicks(%d), bpm = %s (%.17g): Ticks(%d ns) = %d, Duration(that) = %d ns" % (a[0], bpm, num(r["nums"][0]) * 2.0 ** a[1], x, y, z) + tail
        if ev == "tempoat":
            k = a[0]
            q = a[1 + 2 * k:][at - 1]
            return "TempoChanges %s: TempoAt(%d) = %s, TempoChangeAt = #%s" % (list(zip(a[1:1 + 2 * k:2], a[2:2 + 2 * k:2])), q, r["outs"][2 * at - 2], r["outs"][2 * at - 1]) + tail
        if ev == "tchg":
            return "file (resolution %d) with tempo events (tick, bpm) %s: TempoChanges() after ReadFrom = %s" % (a[0], list(zip(a[2::2], a[3::2])), r["outs"]) + tail
        if ev in ("key", "metakey", "keyraw"):
            o = r["outs"]
            call = ("smf.%s()" % r["name"] if ev == "key" else "smf.MetaKey(key %d, isMajor %s, num %d, isFlat %s)" % (a[0], bool(a[2]), a[1], bool(a[3])) if ev == "metakey"
                    else "message")
            return "%s = %s: GetMetaKey -> %s Key{Key: %d, Num: %d, IsMajor: %s, IsFlat: %s} String() %r, GetMetaKeySig -> %s key %d num %d isMajor %s isFlat %s; nil arguments -> %s %s" % (
                call, " ".join("%02X" % b for b in r["msg"]), bool(o[0]), o[1], o[2], bool(o[3]), bool(o[4]), r["s"], bool(o[5]), o[6], o[7], bool(o[8]), bool(o[9]), bool(o[10]), bool(o[11])) + tail
    except (IndexError, KeyError, TypeError, ValueError):
        pass
    return "%s %s %s -> msg %s outs %s s %r" % (ev, r["name"], a, r["msg"], r["outs"][:12], r["s"]) + tail


def canaries(ctx, recs):
    """corrupted copies of accepted records: the trace spec must reject every one of them (self-test of the judge)"""
    def first(pred):
        for r in recs:
            if pred(r):
                return copy.deepcopy(r)
        return None
    cs = []

    def canary(name, pred, corrupt):
        r = first(pred)
        if r is not None:
            corrupt(r)
            cs.append((name, r))

    def bump_digits(b):
        b["d"] = [int(c) for c in str(num(b["d"]) + 2)]

    def seti(field, i, fn):
        def c(r):
            r[field][i] = fn(r[field][i])
        return c
    canary("note length", lambda r: r["ev"] == "notelen" and r["a"] == [768], seti("outs", 10 * 192 + 4, lambda v: v + 1))        # Ticks32th of 960: 120 -> 121
    canary("resolution of the zero value", lambda r: r["ev"] == "notelen" and r["a"] == [0], seti("outs", 0, lambda v: 0))
    canary("division word", lambda r: r["ev"] == "hdrm" and r["a"] == [256], seti("outs", 6 * 5 + 2, lambda v: v ^ 1))
    canary("time format read back", lambda r: r["ev"] == "hdrt" and r["a"] == [25], seti("outs", 6 * 40 + 4, lambda v: 24))
    canary("time code read as metric", lambda r: r["ev"] == "rdword" and r["a"] == [232], seti("outs", 3 * 4, lambda v: 0))
    canary("smpte constructor", lambda r: r["ev"] == "ctor" and r["a"] == [29], seti("outs", 2 * 7, lambda v: 30))
    canary("resolution text", lambda r: r["ev"] == "str" and r["a"] == [0, 0, 0], seti("strs", 0, lambda s: [48] + s[3:]))       # "960 .." -> "0 .."
    canary("in64ths", lambda r: r["ev"] == "in64" and r["a"][1] == 0 and len(r["bigs"]) > 3, lambda r: bump_digits(r["bigs"][3]))
    canary("duration off by 2 ns", lambda r: r["ev"] == "dur" and len(r["nums"]) > 2 and len(r["bigs"][1]["d"]) <= 12, lambda r: bump_digits(r["bigs"][1]))
    canary("ticks off by 2", lambda r: r["ev"] == "ticks" and len(r["nums"]) > 2, lambda r: bump_digits(r["bigs"][1]))
    canary("tempo at", lambda r: r["ev"] == "tempoat" and r["a"][0] >= 2, seti("outs", 2, lambda v: v + 1))
    canary("key constructor accidentals", lambda r: r["ev"] == "key" and r["name"] == "EbMaj", seti("msg", 3, lambda v: 3))          # three sharps instead of three flats
    canary("key name", lambda r: r["ev"] == "key" and r["name"] == "FsharpMaj", lambda r: r.__setitem__("s", "GbMaj"))
    canary("tonic", lambda r: r["ev"] == "metakey" and r["a"][1:] == [7, 1, 1], seti("outs", 1, lambda v: (v + 1) % 12))
    canary("flat flag", lambda r: r["ev"] == "keyraw" and r["msg"][3:] == [255, 1], seti("outs", 9, lambda v: 1 - v))
    if len(cs) < 10:
        ctx.note("only %d canaries could be derived from accepted records" % len(cs))
    if not cs:
        return
    bad = {i for i, _ in ctx.validate("Trace_TimeFormat", [c for _, c in cs], shards=1)}
    ctx.cov["traces_validated_against_impl"] -= len(cs)              # canaries are not implementation traces
    missed = [cs[i][0] for i in range(len(cs)) if i not in bad]
    if missed:
        raise Machinery("trace spec accepts corrupted records (lost sensitivity): %s" % missed)
    ctx.cov["canaries_rejected"] = [n for n, _ in cs]


def observations(ctx, recs):
    """what the property leaves open, reported (never judged): strict re-evaluation by TLC + plain summaries of recorded values"""
    obs = []
    strict = [r for r in recs if (r["ev"] == "in64" and r["a"][1] == 1) or (r["ev"] == "keyraw" and r["msg"][3] in (7, 249) and r["msg"][4] in (0, 1))]
    if strict:
        bad = ctx.validate("Trace_TimeFormat", strict, cfg="Trace_TimeFormat_strict.cfg", shards=2)
        ctx.cov["traces_validated_against_impl"] -= len(strict)      # already counted
        nb = sum(1 for i, _ in bad if strict[i]["ev"] == "in64")
        nk = sorted({strict[i]["msg"][3] - (256 if strict[i]["msg"][3] > 127 else 0) for i, _ in bad if strict[i]["ev"] == "keyraw"})
        n64 = sum(1 for r in strict if r["ev"] == "in64")
        if nb:
            ex = next(strict[i] for i, _ in bad if strict[i]["ev"] == "in64")
            obs.append("In64ths beyond the SMF delta range (ticks >= 2^28): %d of %d sampled calls contain a value that is not floor(16 ticks / resolution) "
                       "(16 * ticks wraps in uint32), e.g. MetricTicks(%d).In64ths(%d) = %d" % (nb, n64, ex["a"][0], num(ex["nums"][0]), sbig(ex["bigs"][0])))
        if nk:
            obs.append("Key.String() is empty for the signatures of %s accidentals (C# / Cb major, A# / Ab minor): the library has no name for them" % nk)
    words = sorted({(r["outs"][6 * i + 1], r["outs"][6 * i + 2]) for r in recs if r["ev"] == "hdrm" and r["a"][0] >= 32768 for i in range(256)})
    if words:
        obs.append("MetricTicks >= 32768 (no 15-bit division word): WriteTo returns nil and writes %s" % (
            ", ".join("%02X %02X" % (h & 255, l & 255) for h, l in words[:4]) + (" ..." if len(words) > 4 else "")))
    ctx.cov["observations"] = obs
    for o in obs:
        ctx.log("OBSERVATION", o)


def run(ctx):
    q = ctx.quick
    ctx.cov["rule"] = RULE
    ctx.cov["checker_cmd"] = "tlc MC_TimeFormat ; vh_timefmt gen -> tlc Trace_TimeFormat (every record) ; corrupted canaries -> tlc Trace_TimeFormat"
    ctx.cov["trusted_base"] = ["TLC", "spec/TimeFormat.tla, spec/KeySig.tla (reading of SMF 1.0 <division> and FF 59, the package docs, the circle of fifths), spec/BigNat.tla",
                               "harness/cmd/vh_timefmt (calls the library, records arguments and results; no oracle; float64 -> mant * 2^ex bit decomposition, decimal digits by strconv, "
                               "picking the two division bytes at offset 12 of the written file)"]
    ctx.assumptions += [
        "rounding ties: either neighbour; float64 evaluation: relative allowance 2^-50 on top of the half unit (the spec's D and T are the exact rationals)",
        "bpm in [1, 1000]; Duration results below 2^63 ns; Ticks results below 2^32 - 1 and durations >= 0; beyond: not judged",
        "In64ths only for ticks < 2^28 (what an SMF delta can carry); MetricTicks >= 32768 in WriteTo: error or any non-zero metric word; division word 0 in ReadFrom: error or MetricTicks(0)",
        "TimeCode with a rate other than 24/25/29/30: an error is acceptable; a nil error is acceptable only if the word written denotes that TimeCode (rates 1..128)",
        "String(): only the decimal numbers in the text (and 'Drop' for 29 fps) are demanded; Key.String() for seven accidentals: not demanded",
        "MetaKey with num > 7, raw signatures outside -7..7 / mode > 1: only 'no panic'; MetaKey ignores its key argument (the tonic follows from the signature)",
        "header chunk structure beyond the division word, AbsTimeMicroSec of tempo changes, several tempo changes on one tick in a file: properties C01-C03 / C11",
    ]
    if q:
        ctx.model_check("MC_TimeFormat", "MC_TimeFormat_quick.cfg", timeout=900)
    else:
        ctx.model_check("MC_TimeFormat", "MC_TimeFormat.cfg", timeout=3000)
    vh = ctx.build("./cmd/vh_timefmt")
    d = ctx.sub("timefmt")
    out = os.path.join(d, "recs.ndjson")
    ctx.run([vh, "gen", "-out", out, "-seed", str(ctx.seed), "-nrandom", str(400 if q else 8000)] + ([] if q else ["-full"]), timeout=1800)
    fails, n, seen_canary = [], 0, False
    per = {}
    sample_obs = []
    chunk = []

    def flush():
        nonlocal seen_canary
        if not chunk:
            return
        # heavy records (256-value blocks: JSON; conversions: big-number arithmetic) come in runs: deal them out evenly over the shards
        chunk[:] = [r for k in range(16) for r in chunk[k::16]]
        bad = ctx.validate("Trace_TimeFormat", chunk)
        for idx, info in bad:
            r = chunk[idx]
            if info.get("unknown"):
                raise Machinery("generator produced a record outside the trace spec's domain (%s): %s" % (info.get("why"), json.dumps(head(r))[:600]))
            fails.append(Failure(signature(r, info), describe(r, info), {"family": "timefmt", "record": head(r)}))
        if not seen_canary:
            rejected = {i for i, _ in bad}
            canaries(ctx, [r for i, r in enumerate(chunk) if i not in rejected])
            seen_canary = True
        ctx.count(sum(256 if r["ev"] in BLOCKS else max(1, len(r["nums"]) - (1 if r["ev"] in ("dur", "ticks") else 0)) for r in chunk), [key(r) for r in chunk],
                  [{"ev": r["ev"], "a": r["a"], "bpm_mant": num(r["nums"][0]), "args": [num(x) for x in r["nums"][1:4]], "results": [sbig(b) for b in r["bigs"][:3]]}
                   for r in chunk if r["ev"] in ("dur", "ticks")][:3])
        sample_obs.extend(r for r in chunk if (r["ev"] == "in64" and r["a"][1] == 1) or r["ev"] == "keyraw" or (r["ev"] == "hdrm" and r["a"][0] >= 32768))
        del chunk[:]

    with open(out) as f:
        for line in f:
            r = json.loads(line)
            per[r["ev"]] = per.get(r["ev"], 0) + 1
            chunk.append(r)
            n += 1
            if len(chunk) >= 40000:
                flush()
    flush()
    observations(ctx, sample_obs)
    ctx.cov["records_per_kind"] = per
    ctx.cov["exhaustive"] = ("all 65536 MetricTicks values: Resolution + 9 note lengths, WriteTo/ReadFrom header round trip; all 256 x 256 TimeCode values: header round trip; "
                             "all 65536 division words: ReadFrom; 4 SMPTE constructors x 256; 26 key constructors; MetaKey 12 keys x 15 counts x 4 flag pairs; 256 x 4 raw key signatures")
    ctx.log("%d records judged by TLC, %d rejected" % (n, len(fails)))
    # of several rejected records of one class the report shows the first: the zero value TimeCode{} is the most telling one
    fails.sort(key=lambda f: (f.payload["record"]["ev"], f.payload["record"]["a"][:1]))
    ctx.report(fails, lambda f: confirm(ctx, f))


def rerun(ctx, rec):
    vh = ctx.build("./cmd/vh_timefmt")
    d = ctx.sub("replay")
    i, o = os.path.join(d, "in.ndjson"), os.path.join(d, "out.ndjson")
    open(i, "w").write(json.dumps(rec) + "\n")
    ctx.run([vh, "rerun", "-in", i, "-out", o])
    new = json.loads(open(o).read())
    bad = ctx.validate("Trace_TimeFormat", [new], shards=1)
    if bad and bad[0][1].get("unknown"):
        raise Machinery("replayed record is outside the trace spec's domain")
    return bool(bad), new, (bad[0][1] if bad else {})


def confirm(ctx, f):
    return rerun(ctx, f.payload["record"])[0]


def replay(ctx, payload):
    ok, new, info = rerun(ctx, payload["payload"]["record"])
    print(describe(new, info)[:2000] if ok else json.dumps(new)[:1000])
    return ok
