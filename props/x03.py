"""X03 (extension) -- track iteration: selection, type filter and tempo lookups; track / file predicates.

The property is stated in the header of spec/TrackIter.tla.  Model: MC_TrackIter (iterator actions vs. the closed
form, acceptor sound on mutants, tempo lookup = the reading of spec/Tempo.tla, track life cycle).  Binding T: recorded
experiments on the real library (harness/cmd/vh_trackiter) are judged line by line by spec/Trace_TrackIter.tla.
"""
import json
import os
from collections import Counter
from vlib.engine import Failure, Machinery

PKG = "./cmd/vh_trackiter"
NEED = ("sel_all", "sel_subset", "sel_single", "sel_mixed_out_of_range", "sel_only_out_of_range", "sel_repeated",
        "filt_none", "filt_one_type", "filt_disjoint_types", "filt_category", "filt_overlap", "filt_repeated_type", "filt_two_categories",
        "tempo", "tempo_same_tick", "no_tempo", "unclosed", "close_twice", "track_empty", "sysex", "meta_undefined", "delta_big")


def _dec(d):
    return int("".join(map(str, d or [0])))


def gen(ctx, n, seed):
    vh = ctx.build(PKG)
    out = os.path.join(ctx.sub("itergen"), "iter.ndjson")
    ctx.run([vh, "iter-gen", "-n", str(n), "-seed", str(seed), "-out", out], timeout=1800)
    return [json.loads(x) for x in open(out)]


def slim(rec):
    return {k: v for k, v in rec.items() if k not in ("feat", "sentts")}


def signature(rec, info):
    what = info.get("what", "?")
    x = info.get("x") or {}
    if what == "visit":
        return "iter:visit:" + ("repeat" if x.get("repeat") else "missing" if x.get("missing") else "extra")
    if what == "error":
        return "iter:error:" + ("panic" if x.get("panic") else "write" if x.get("werr") else "read")
    return "iter:" + what


def describe(rec, info):
    x = dict(info.get("x") or {})
    for k in ("tick",):
        if k in x:
            x[k] = _dec(x[k])
    for g in x.get("got") or []:
        if isinstance(g, dict):
            g["d"], g["abs"] = _dec(g["d"]), _dec(g["abs"])
    return "iter id=%s ctor=%s tracks=%d (events %s) sel=%s Only(%s)%s: %s %s" % (
        rec["id"], rec["ctor"], len(rec["ops"]), [o[-1]["n"] if o else 0 for o in rec["ops"]], rec["sel"],
        ", ".join(rec["only"]), "" if rec["filt"] == "types" else " [filter mode %s]" % rec["filt"], info.get("what"), json.dumps(x)[:1000])


def judge(ctx, recs, shards=None):
    bad = ctx.validate("Trace_TrackIter", [slim(r) for r in recs], shards=shards, timeout=1500)
    fails = []
    for idx, info in bad:
        r = recs[idx]
        info = info or {}
        if info.get("genbug"):
            raise Machinery("generator produced a record the specification places outside the domain of X03 / malformed: %s (record id %s)"
                            % (json.dumps(info)[:400], r.get("id")))
        fails.append(Failure(signature(r, info), describe(r, info), {"family": "trackiter", "record": r}))
    fails.sort(key=lambda f: len(json.dumps(f.payload)))
    return fails


def rerun(ctx, rec):
    vh = ctx.build(PKG)
    d = ctx.sub("replay")
    i, o = os.path.join(d, "in.ndjson"), os.path.join(d, "out.ndjson")
    open(i, "w").write(json.dumps(rec) + "\n")
    ctx.run([vh, "iter-rerun", "-in", i, "-out", o], timeout=600)
    new = json.loads(open(o).read())
    bad = ctx.validate("Trace_TrackIter", [slim(new)], shards=1)
    info = bad[0][1] if bad else None
    if info and info.get("genbug"):
        raise Machinery("replayed record is outside the domain: %s" % info)
    return bool(bad), new, info


def run(ctx):
    q = ctx.quick
    ctx.cov["rule"] = (
        "X03 (extension, stated in spec/TrackIter.tla): P1 ReadTracksFrom(sel...).Do visits exactly the events of the selected tracks (all if none given; numbers the "
        "file does not have select nothing), each once, tracks in file order, events in track order, with TrackNo, Delta and AbsTicks = running sum of deltas per track; "
        "P2 Only(types...) restricts the visit to events of one of the given types (concrete type or category ChannelMsg / SysExMsg / MetaMsg), order and AbsTicks unchanged, "
        "still once per event even if two given types match; P3 SMF.TempoChanges lists the Set Tempo events sorted by tick, TempoChangeAt(t) = last entry with AbsTicks <= t "
        "(nil before the first), TempoAt(t) its BPM (120 if none) -- the same reading as spec/Tempo.tla (C11); P4 Track.IsClosed / IsEmpty after every Add / Close, SMF.Add error, "
        "NumTracks, Format (New -> 0, 1 after a second track; NewSMF1 1; NewSMF2 2) and the same after WriteTo + ReadTracksFrom; P5 Track.SendTo hands out the non-meta events in order. "
        "Generated: 1-5 tracks of 0-32 events (channel, sysex, all meta kinds incl. undefined type bytes, tempo events in one or in several tracks, bursts on one tick), deltas 0..0FFFFFFF, "
        "selections all / subset / single / out of range / repeated, filters none / Only() / one type / disjoint / category / category+own type / repeated type / two categories / open types. "
        "evaluations = visits + tempo queries + predicate observations; distinct = records with an overlapping or repeated filter, a same-tick tempo burst or out-of-range selection")
    ctx.cov["checker_cmd"] = ("tlc MC_TrackIter (StepIsClosedForm AcceptsOwn RejectsMutants Restriction SelectionLaw OnceEach LookupIsC11 LookupLaws ClosedSticks EmptyMeans) ; "
                              "tlc Trace_TrackIter (TiVisits / TiExplain / TiLookup / TiTrackStep over BigNat)")
    ctx.cov["trusted_base"] = ["TLC", "spec/TrackIter.tla as the statement of X03", "spec/BigNat.tla (checked against native integers by MC_Tempo; TiCum / TiLookup agreement by MC_TrackIter)",
                               "harness recording; table typeByName (filter name -> exported midi.Type constant); pointer identity to locate TempoChangeAt's result in TempoChanges()",
                               "BPM of a tempo event = the library's own Message.GetMetaTempo (bit pattern); its relation to the 24-bit payload is C15/C11"]
    ctx.assumptions += [
        "domain: metric time files built through the public API, resolution 1..32767, deltas <= 0FFFFFFF (SMF 1.0), messages = valid channel / sysex / meta messages; End Of Track counts as an event of its track",
        "left open: Only() without arguments (all or nothing); meta events with a type byte SMF 1.0 does not define under MetaMsg / MetaUndefinedMsg / UnknownMsg; order of TempoChanges entries on one tick when tempo events live in several tracks",
        "not judged: TempoChange.AbsTimeMicroSec and TrackEvent.AbsMicroSeconds (C11); the timestamp Track.SendTo passes (undocumented); sysex in SendTo (all or none); SMF.String",
        "an SMF.Add of an unclosed track returns an error AND appends the track (WriteTo then closes it with delta 0), as in spec/SmfWrite.tla",
    ]
    ctx.model_check("MC_TrackIter", "MC_TrackIter_quick.cfg" if q else "MC_TrackIter.cfg", timeout=900 if q else 2400)
    recs = []
    for s in ([ctx.seed] if q else [ctx.seed * 100 + i for i in range(6)]):
        recs += gen(ctx, 1200 if q else 4000, s)
    for i, r in enumerate(recs):
        r["id"] = i
    fails = judge(ctx, recs)
    feats = Counter(f for r in recs for f in r["feat"])
    nv = sum(len(r["visits"]) for r in recs)
    nq = sum(len(r["queries"]) for r in recs)
    npred = sum(len(o) for r in recs for o in r["ops"]) + sum(len(r["adds"]) + 2 * len(r["rb"]["closed"]) for r in recs)
    ctx.cov["features"] = dict(feats)
    ctx.cov["counts"] = {"experiments": len(recs), "visits": nv, "tempo_queries": nq, "predicate_observations": npred,
                         "sendto_calls": sum(len(r["sent"]) for r in recs)}
    ctx.log("experiments=%d visits=%d queries=%d predicates=%d features=%s" % (len(recs), nv, nq, npred, dict(feats)))
    hard = {"filt_overlap", "filt_repeated_type", "filt_two_categories", "tempo_same_tick", "sel_only_out_of_range", "sel_mixed_out_of_range", "tempo_multi_track"}
    ctx.count(nv + nq + npred, [r["id"] for r in recs if hard & set(r["feat"])],
              [{"ctor": r["ctor"], "tracks": len(r["ops"]), "sel": r["sel"], "filt": r["filt"], "only": r["only"], "visits": len(r["visits"]),
                "tempo_entries": len(r["list"]), "queries": len(r["queries"]), "feat": r["feat"]} for r in recs[:3]])
    for need in NEED:
        if not feats.get(need):
            raise Machinery("generator did not produce feature %s" % need)
    ctx.report(fails, lambda f: rerun(ctx, f.payload["record"])[0])


def replay(ctx, payload):
    ok, new, info = rerun(ctx, payload["payload"]["record"])
    print(describe(new, info)[:3000] if ok else json.dumps({"info": info}))
    return ok
