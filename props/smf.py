"""Shared driver for the SMF file-layer family C01 C02 C03 C05 C09 C10."""
import json
import os
from vlib.engine import Failure, Machinery


def gen(ctx, mode, n, seed, judge, big=False, fulldelta=False):
    vh = ctx.build()
    out = os.path.join(ctx.sub("smfgen_" + mode), mode + ".ndjson")
    cmd = [vh, "smf-gen", "-mode", mode, "-n", str(n), "-seed", str(seed), "-judge", judge, "-out", out]
    if big:
        cmd.append("-big")
    if fulldelta:
        cmd.append("-fulldelta")
    ctx.run(cmd, timeout=3600)
    return [json.loads(x) for x in open(out)]


def gen_par(ctx, mode, n, seed, judge, parts, **kw):
    """the same as gen, split over `parts` generator processes (seeds seed, seed+7919, ...): the harness generates single-threaded"""
    from concurrent.futures import ThreadPoolExecutor
    ctx.build()
    per = (n + parts - 1) // parts

    def one(i):
        vh = ctx.build()
        out = os.path.join(ctx.sub("smfgen_%s_%d" % (mode, i)), mode + ".ndjson")
        cmd = [vh, "smf-gen", "-mode", mode, "-n", str(per), "-seed", str(seed + 7919 * i), "-judge", judge, "-out", out]
        if kw.get("big"):
            cmd.append("-big")
        if kw.get("fulldelta"):
            cmd.append("-fulldelta")
        ctx.run(cmd, timeout=3600)
        recs = [json.loads(x) for x in open(out)]
        for r in recs:
            r["id"] += 100000 * i
        return recs
    with ThreadPoolExecutor(parts) as ex:
        return [r for part in ex.map(one, range(parts)) for r in part]


def rerun(ctx, rec, full=False):
    vh = ctx.build()
    d = ctx.sub("replay")
    i, o = os.path.join(d, "in.ndjson"), os.path.join(d, "out.ndjson")
    open(i, "w").write(json.dumps(rec) + "\n")
    ctx.run([vh, "smf-rerun", "-in", i, "-out", o] + (["-full"] if full else []), timeout=600)
    new = json.loads(open(o).read())
    new["judge"] = rec.get("judge", "")
    bad = ctx.validate("Trace_Smf", [new], shards=1)
    if bad and bad[0][1] and bad[0][1].get("genbug"):
        raise Machinery("generator produced a file the specification does not accept as valid: %s" % bad[0][1])
    return bool(bad), new, (bad[0][1] if bad else None)


def rerun_many(ctx, recs, full=False):
    """re-execute the records in ONE fresh process, in order, and judge the LAST one"""
    vh = ctx.build()
    d = ctx.sub("replayctx")
    i, o = os.path.join(d, "in.ndjson"), os.path.join(d, "out.ndjson")
    with open(i, "w") as fh:
        for r in recs:
            fh.write(json.dumps(r) + "\n")
    ctx.run([vh, "smf-rerun", "-in", i, "-out", o] + (["-full"] if full else []), timeout=1800)
    new = json.loads(open(o).read().splitlines()[-1])
    new["judge"] = recs[-1].get("judge", "")
    bad = ctx.validate("Trace_Smf", [new], shards=1)
    return bool(bad), new, (bad[0][1] if bad else None)


def signature(rec, info):
    info = info or {}
    ev = rec.get("ev")
    if ev in ("wr", "rd"):
        r = rec["read"]
        if r["kind"] == "panic":
            return "%s:read-panic:%s" % (ev, r["msg"][:120])
        if ev == "wr" and rec.get("werr"):
            return "wr:werr:" + rec["werr"][:80]
        return "%s:%s:diverge:%s" % (ev, rec.get("judge"), r["kind"])
    if ev in ("cut", "any") and (str(info.get("tr", "ok")).split(":")[0] not in ("ok", "error", "n/a") or str(info.get("trfile", "ok")).split(":")[0] not in ("ok", "error", "n/a")):
        bad = info.get("tr") if str(info.get("tr", "ok")).split(":")[0] not in ("ok", "error", "n/a") else "file:" + str(info.get("trfile"))
        return "%s:tracksreader:%s" % (ev, bad[:100])
    if ev == "cut":
        f = (info.get("first") or [{}])[0]
        return "cut:%s:%s" % (f.get("kind"), (f.get("msg") or "")[:100] if f.get("kind") in ("panic", "timeout") else ("alloc" if f.get("alloc", 0) > 8192 + f.get("k", 0) else "notprefix"))
    if ev == "any":
        return "any:%s:%s" % (rec["kind"], rec["msg"][:100] if rec["kind"] in ("panic", "timeout") else "alloc")
    if ev == "sched":
        b = (info.get("bad") or [{}])[0]
        return "sched:" + str(b.get("sched", "")).split("[")[0].split("@")[0].split(":")[0]
    if ev == "wfault":
        f = (info.get("first") or [{}])[0]
        return "wfault:" + ("nofault" if not f else "mode=%s" % f.get("mode"))
    if ev == "rfault":
        f = (info.get("first") or [{}])[0]
        return "rfault:%s" % f.get("kind")
    return ev or "?"


def describe(rec, info):
    ev = rec.get("ev")
    head = "%s id=%s " % (ev, rec.get("id"))
    if "bytes" in rec:
        head += "bytes[%d]=%s " % (len(rec["bytes"]), " ".join("%02X" % b for b in rec["bytes"][:48]))
    return head + json.dumps(info)[:900]


def validate(ctx, recs):
    bad = ctx.validate("Trace_Smf", recs)
    fails = []
    for idx, info in bad:
        r = recs[idx]
        if info and info.get("genbug"):
            raise Machinery("generator produced a file the specification rejects (%s): bytes=%s" % (info.get("parse"), r.get("bytes", [])[:80]))
        f = Failure(signature(r, info), describe(r, info), {"family": "smf", "record": r})
        f.before = recs[max(0, idx - 400):idx]
        fails.append(f)
    fails.sort(key=lambda f: len(json.dumps(f.payload)))
    return fails


def confirm_factory(ctx):
    def confirm(f):
        rec = f.payload["record"]
        ok, new, info = rerun(ctx, rec, full=(rec.get("ev") == "cut"))
        return ok
    confirm.in_context = lambda before, f: rerun_many(ctx, before + [f.payload["record"]], full=(f.payload["record"].get("ev") == "cut"))[0]
    return confirm


def replay(ctx, payload):
    rec = payload["payload"]["record"]
    if payload["payload"].get("context"):
        ok, new, info = rerun_many(ctx, payload["payload"]["context"] + [rec], full=(rec.get("ev") == "cut"))
    else:
        ok, new, info = rerun(ctx, rec, full=(rec.get("ev") == "cut"))
    print(json.dumps({"info": info})[:3000])
    return ok


def feats(recs):
    from collections import Counter
    c = Counter()
    for r in recs:
        for f in r.get("feat") or []:
            c[f] += 1
    return dict(c)
