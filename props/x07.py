"""X07 (extension) -- the algebra of message types (Type.Is, Message.Is / IsOneOf, Type.String) and the system real-time constructors.

The property is stated in the header of spec/TypeAlgebra.tla (T1..T5).  Model: MC_TypeAlgebra (categories partition the concrete
types, a concrete type corresponds to itself and its category only, IsOneOf is the disjunction, the real-time table is injective).
Binding T: observations of the real library (harness/cmd/vh_types: the complete Is matrix over all exported type constants, every
constructor's type, every real-time constructor through a loopback port, IsOneOf on messages of every type at both levels) judged line
by line by spec/Trace_TypeAlgebra.tla."""
import json
import os
from collections import Counter
from vlib.engine import Failure, Machinery

PKG = "./cmd/vh_types"
TRACE = "Trace_TypeAlgebra"
INPUTS = ("ev", "id", "t", "c", "cs", "lvl", "fn")


def _gen(ctx, seed, n):
    vh = ctx.build(PKG)
    out = os.path.join(ctx.sub("typesgen"), "types.ndjson")
    ctx.run([vh, "types-gen", "-seed", str(seed), "-n", str(n), "-out", out], timeout=600)
    return [json.loads(x) for x in open(out)]


def _slim(r):
    d = {k: r[k] for k in INPUTS}
    d.update({"got": False, "bytes": [], "type": "", "loop": [], "names": [], "panic": ""})
    return d


def _rerun(ctx, rec):
    vh = ctx.build(PKG)
    d = ctx.sub("replay")
    i, o = os.path.join(d, "in.ndjson"), os.path.join(d, "out.ndjson")
    open(i, "w").write(json.dumps(rec) + "\n")
    ctx.run([vh, "types-rerun", "-in", i, "-out", o], timeout=600)
    new = json.loads(open(o).read())
    bad = ctx.validate(TRACE, [new], shards=1)
    if bad and bad[0][1] and bad[0][1].get("genbug"):
        raise Machinery("record names something the specification does not know: %s" % bad[0][1])
    return bool(bad), new, (bad[0][1] if bad else None)


def signature(r, info):
    if r["panic"]:
        return "%s:panic" % r["ev"]
    if r["ev"] == "is":
        return "is:%s:%s" % (r["t"], r["c"])
    if r["ev"] == "oneof":
        return "oneof:%s:%s" % (r["lvl"], r["t"])
    if r["ev"] in ("rt", "ctor"):
        return "%s:%s" % (r["ev"], r["fn"])
    return r["ev"]


def describe(r, info):
    if r["ev"] == "is":
        return "midi.Type %s .Is(%s) = %s, the specification says %s" % (r["t"], r["c"], r["got"], (info or {}).get("want"))
    if r["ev"] == "oneof":
        return "%s message %s (type %s) .IsOneOf(%s) = %s, the specification says %s" % (r["lvl"], r["bytes"], r["t"], ", ".join(r["cs"]), r["got"], (info or {}).get("want"))
    if r["ev"] == "names":
        return "Type.String(): %s" % json.dumps(info)[:600]
    return "%s %s(): bytes %s type %s loopback %s panic %r; %s" % (r["ev"], r["fn"], r["bytes"], r["type"], r["loop"], r["panic"], json.dumps(info)[:300])


def run(ctx):
    q = ctx.quick
    ctx.cov["rule"] = ("X07 (extension, stated in spec/TypeAlgebra.tla): T1 the complete matrix t.Is(c) over all 43 exported type constants of the midi and smf "
                       "packages (judged for concrete types, UnknownMsg and SysExMsg as receiver); T2 IsOneOf on a message of every type at both levels x every single "
                       "checker, plus seeded random checker lists of 0..4 entries; T3 Type.String() non-empty and pairwise distinct; T4 the seven real-time constructors: "
                       "bytes, type, loopback through testdrv + ListenTo with all options; T5 the type of the message every constructor of the midi / smf package builds. "
                       "distinct key = (ev, t, c / cs / fn, level)")
    ctx.cov["checker_cmd"] = "tlc MC_TypeAlgebra ; vh_types types-gen ; tlc Trace_TypeAlgebra"
    ctx.cov["trusted_base"] = ["TLC", "spec/TypeAlgebra.tla (categories and the MIDI 1.0 real-time status bytes)",
                               "the name table of harness/cmd/vh_types (specification name -> exported Go constant / constructor)"]
    ctx.assumptions += ["what a category constant (RealTimeMsg, ChannelMsg, SysCommonMsg, smf.MetaMsg) answers as RECEIVER of Is is undocumented and not judged",
                        "constructors are called with one fixed in-range argument tuple each (their encodings over the whole domain are C07 / C15)"]
    ctx.model_check("MC_TypeAlgebra")
    recs = _gen(ctx, ctx.seed + 70000, 2000 if q else 60000)
    bad = ctx.validate(TRACE, recs)
    fails = []
    for idx, info in bad:
        r = recs[idx]
        if info and info.get("genbug"):
            raise Machinery("generator problem (not a violation): %s" % json.dumps(info)[:400])
        fails.append(Failure(signature(r, info), describe(r, info), {"family": "types", "record": _slim(r)}))
    fails.sort(key=lambda f: len(json.dumps(f.payload)))
    c = Counter(r["ev"] for r in recs)
    ctx.log("observations: %s; rejected %d" % (dict(c), len(bad)))
    ctx.cov["observations"] = dict(c)
    ctx.count(len(recs), [(r["ev"], r["t"], r["c"], tuple(r["cs"]), r["fn"], r["lvl"]) for r in recs if r["ev"] != "names"],
              [{k: r[k] for k in ("ev", "t", "c", "cs", "fn", "got", "bytes", "type")} for r in recs[:2] + recs[-2:]])
    ctx.cov["traces_validated_against_impl"] = len(recs)

    def confirm(f):
        ok, _, _ = _rerun(ctx, f.payload["record"])
        return ok
    ctx.report(fails, confirm)


def replay(ctx, payload):
    ok, new, info = _rerun(ctx, payload["payload"]["record"])
    print(json.dumps({"reexecuted": new, "verdict": info})[:3000])
    return ok
