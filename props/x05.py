"""X05 (extension) -- driver registry, port lookup and session helpers, including failing ports.

The property is stated in the header of spec/Registry.tla.  Model: MC_Registry (every call sequence up to a depth over
three driver instances x (2 ins, 2 outs) x fault sets; invariants and action properties R1..R5).  Binding G: the state
graph TLC dumps for MC_Registry is walked through the real package-level API on fake drivers (harness/cmd/vh_registry
walk): every transition behind a shortest path to its source state.  Binding T: seeded random longer call sequences over
random layouts / fault sets, including the one-second recording wrappers, judged line by line by spec/Trace_Registry.tla.
Part M (spec/RegistryMidicat.tla, MC_RegistryMidicat, Trace_RegistryMidicat, harness/cmd/vh_registry_mcat + the stand-in helper
harness/cmd/midicat_x05): the process-backed driver midicatdrv as the registered driver -- version gate of New(), Ins / Outs
from the helper's JSON, Driver.Close / midi.CloseDriver.
"""
import concurrent.futures as cf
import json
import multiprocessing as mp
import os
import re
import subprocess
from collections import Counter
from vlib.engine import Failure, Machinery, goenv, parse_tla_value, _P

PKG = "./cmd/vh_registry"
PKG_M = "./cmd/vh_registry_mcat"
KEEP = ("res", "call", "flt", "obs")     # s and k are not needed for the walk
_node_re = re.compile(r'^(-?\d+) \[label="(.*?)"(,style = filled)?(?:,tooltip=".*")?\];?$')
_edge_re = re.compile(r'^(-?\d+) -> (-?\d+) \[')


def _plain(v):
    """TLA+ value as parsed by the engine -> plain JSON (sets become lists)"""
    if isinstance(v, dict):
        if set(v.keys()) == {"set"}:
            return [_plain(x) for x in v["set"]]
        return {k: _plain(x) for k, x in v.items()}
    if isinstance(v, list):
        return [_plain(x) for x in v]
    return v


def _parse_chunk(lines):
    """-> nodes [(tlc id, node as JSON text without its edges, is initial, fault set as text)], edges [(from, to)]"""
    nodes, edges = [], []
    for line in lines:
        m = _edge_re.match(line)
        if m:
            edges.append((m.group(1), m.group(2)))
            continue
        m = _node_re.match(line.rstrip("\n"))
        if not m:
            continue
        txt = m.group(2).replace("\\n", "\n").replace('\\"', '"').replace("\\\\", "\\")
        st = {}
        for part in re.split(r"(?:^|\n)/\\ ", txt):
            name, _, v = part.strip().partition(" = ")
            if name in KEEP:
                st[name] = _plain(parse_tla_value(v))
        if set(st) != set(KEEP):
            raise ValueError("unexpected node label: " + txt[:300])
        js = json.dumps(st, separators=(",", ":"))
        nodes.append((m.group(1), js[:-1], bool(m.group(3)), json.dumps(sorted(json.dumps(x, sort_keys=True) for x in st["flt"]))))
    return nodes, edges


def load_graph(ctx, dot, layout, outdir, want):
    """the dumped state graph, parsed with the engine's TLA+ value parser (in parallel) and written as one JSON file per group
    of fault sets (the components of different fault sets are disjoint): {lay, inits, nodes:[{call,res,obs,flt,out}]}"""
    with open(dot) as f:
        lines = f.readlines()
    n = max(1, min(os.cpu_count() or 4, 16))
    size = max(2000, len(lines) // (n * 4) + 1)
    chunks = [lines[i:i + size] for i in range(0, len(lines), size)]
    del lines
    with mp.Pool(n) as pool:
        parts = pool.map(_parse_chunk, chunks)
    del chunks
    comp = {}                     # fault set -> shard
    where = {}                    # tlc id -> (shard, index in shard)
    shards = []                   # per shard: [node texts], [out lists], [inits]
    for ns, _ in parts:
        for tid, js, init, fk in ns:
            if tid in where:
                continue
            if fk not in comp:
                comp[fk] = len(comp) % want
                if comp[fk] == len(shards):
                    shards.append(([], [], []))
            sh = shards[comp[fk]]
            where[tid] = (comp[fk], len(sh[0]))
            sh[0].append(js)
            sh[1].append([])
            if init:
                sh[2].append(len(sh[0]) - 1)
    ne = 0
    for _, es in parts:
        for a, b in es:
            if a == b:
                continue
            (sa, ia), (sb, ib) = where[a], where[b]
            if sa != sb:
                raise Machinery("state graph: a transition joins two fault sets")
            shards[sa][1][ia].append(ib)
            ne += 1
    del parts
    nn = len(where)
    if not nn or not any(sh[2] for sh in shards):
        raise Machinery("state graph of MC_Registry is empty")
    files = []
    lay = json.dumps(layout, separators=(",", ":"))
    for i, (txt, outs, inits) in enumerate(shards):
        gp = os.path.join(outdir, "g_%d.json" % i)
        with open(gp, "w") as f:
            f.write('{"lay":%s,"inits":%s,"nodes":[' % (lay, json.dumps(inits)))
            for j, js in enumerate(txt):
                f.write("%s%s,\"out\":%s}" % ("," if j else "", js, json.dumps(outs[j], separators=(",", ":"))))
            f.write("]}")
        files.append(gp)
    ctx.log("state graph: %d states, %d transitions, %d fault sets in %d files" % (nn, ne, len(comp), len(files)))
    return files, nn, ne


def layout_of(out):
    m = re.search(r'<<\s*"X05LAYOUT"', out)
    if not m:
        raise Machinery("MC_Registry did not print its layout")
    v = _plain(_P(out[m.start():]).val())
    return v[1]


def walk(ctx, cfg):
    r = ctx.tlc("MC_Registry", cfg, dump=True, timeout=3000)
    d = ctx.sub("walk")
    files, nn, ne = load_graph(ctx, r.dot, layout_of(r.out), d, max(1, min(os.cpu_count() or 4, 16)))
    os.remove(r.dot)
    vh = ctx.build(PKG)

    def one(k):
        o = os.path.join(d, "walk_%d.json" % k)
        ctx.run([vh, "walk", "-graph", files[k], "-out", o], timeout=3000)
        return json.load(open(o))
    res = {"paths": 0, "steps": 0, "skipped": 0, "nodes": 0, "slow_edges_left_to_traces": 0, "bad": []}
    with cf.ThreadPoolExecutor(max_workers=len(files)) as ex:
        for x in ex.map(one, range(len(files))):
            for k in res:
                res[k] += x[k]
    ctx.log("walk: %d transitions executed behind a shortest path (%d calls) over %d model states, %d paths not realised "
            "(the code took another allowed outcome), %d transitions with a one-second call left to the traces, %d differing"
            % (res["paths"], res["steps"], res["nodes"], res["skipped"], res["slow_edges_left_to_traces"], len(res["bad"])))
    if res["nodes"] < 0.5 * nn:
        raise Machinery("the walk reached only %d of %d model states" % (res["nodes"], nn))
    return res, nn, ne


def gen(ctx, jobs):
    """jobs: [(n, seed, slow)] -> records; the slow jobs (a second per recording call) run side by side"""
    vh = ctx.build(PKG)
    d = ctx.sub("gen")

    def one(j):
        k, (n, seed, slow) = j
        o = os.path.join(d, "seq_%d.ndjson" % k)
        ctx.run([vh, "gen", "-n", str(n), "-seed", str(seed), "-id0", str(k * 100000), "-out", o] + (["-slow"] if slow else []), timeout=3000)
        return [json.loads(x) for x in open(o) if x.strip()]
    recs = []
    with cf.ThreadPoolExecutor(max_workers=max(1, min(len(jobs), 32))) as ex:
        for x in ex.map(one, list(enumerate(jobs))):
            recs += x
    return recs


def fmt_call(s):
    a = s["fn"]
    if a == "Register":
        return "Register(d%d)" % s["d"]
    if a in ("InByNumber", "OutByNumber", "InPort", "OutPort"):
        return "%s(%d)" % (a, s["n"])
    if a in ("InByName", "OutByName", "FindInPort", "FindOutPort"):
        return '%s("%s")' % (a, bytes(s["q"]).decode("latin1"))
    if s["p"]["k"] in ("in", "out"):
        return "%s(d%d.%s%d)" % (a, s["p"]["d"], s["p"]["k"], s["p"]["i"])
    return a + "()"


def signature(rec, info):
    what = (info or {}).get("what", "?")
    fn = (info or {}).get("fn", "?")
    if what == "panic":
        i = (info or {}).get("step", 0)
        pan = rec["steps"][i - 1]["pan"] if 0 < i <= len(rec["steps"]) else ""
        return "registry:panic:%s:%s" % (fn, re.sub(r"0x[0-9a-f]+", "0x..", pan)[:80])
    return "registry:%s:%s" % (what, fn)


def describe(rec, info):
    info = info or {}
    i = info.get("step", 0)
    steps = rec["steps"][:i]
    calls = " ; ".join("%s->%s%s" % (fmt_call(s), s["ret"], " PANIC " + s["pan"][:120] if s["pan"] else " TIMEOUT" if s["timeout"] else "") for s in steps[-8:])
    last = steps[-1] if steps else {}
    seen = {k: last.get(k) for k in ("ret", "port", "list", "drv", "closed", "dlv", "nrec", "sent", "open", "lis", "first")}
    return "registry seq id=%s drivers=%s faults=%s: %s at step %d %s | ...%s | observed %s | specification allows %s" % (
        rec["id"], [d["name"] + "(%d ins, %d outs)" % (len(d["ins"]), len(d["outs"])) for d in rec["lay"]],
        ["%s:d%d.%s%d" % (f["f"], f["p"]["d"], f["p"]["k"], f["p"]["i"]) for f in rec["flt"]],
        info.get("what"), i, info.get("fn"), calls, json.dumps(seen)[:600], json.dumps(info.get("expected"))[:900])


def judge(ctx, recs, shards=None):
    bad = ctx.validate("Trace_Registry", recs, shards=shards, timeout=1500)
    fails = []
    for idx, info in bad:
        r = recs[idx]
        info = info or {}
        if info.get("genbug"):
            raise Machinery("generator produced a sequence the specification places outside the domain of X05: %s (sequence id %s)"
                            % (json.dumps(info)[:400], r.get("id")))
        fails.append(Failure(signature(r, info), describe(r, info), {"family": "registry", "record": r}))
    fails.sort(key=lambda f: len(f.payload["record"]["steps"]))
    return fails


def rerun(ctx, rec):
    vh = ctx.build(PKG)
    d = ctx.sub("replay")
    i, o = os.path.join(d, "in.ndjson"), os.path.join(d, "out.ndjson")
    open(i, "w").write(json.dumps(rec) + "\n")
    ctx.run([vh, "rerun", "-in", i, "-out", o], timeout=600)
    new = json.loads(open(o).read())
    bad = ctx.validate("Trace_Registry", [new], shards=1)
    info = bad[0][1] if bad else None
    if info and info.get("genbug"):
        raise Machinery("replayed sequence is outside the domain: %s" % info)
    return bool(bad), new, info


# ---------------------------------------------------------------- part M: drivers/midicatdrv against the stand-in helper
def _mcat_env(ctx):
    hd = ctx._harness_copy()
    bindir = os.path.join(ctx.scratch, "x05_standin_bin")
    if not os.path.exists(os.path.join(bindir, "midicat")):
        os.makedirs(bindir, exist_ok=True)
        p = subprocess.run(["go", "build", "-o", os.path.join(bindir, "midicat"), "./cmd/midicat_x05"], cwd=hd, env=goenv(), capture_output=True, text=True)
        if p.returncode != 0:
            raise Machinery("stand-in helper build failed: " + p.stderr)
    e = dict(os.environ)
    e["PATH"] = bindir + ":" + e["PATH"]
    for k in ("X05_VERSION", "X05_INS", "X05_OUTS", "X05_INS_RC", "X05_OUTS_RC"):
        e.pop(k, None)
    return e


def mcat_gen(ctx, jobs):
    vh = ctx.build(PKG_M)
    env = _mcat_env(ctx)
    d = ctx.sub("mcatgen")

    def one(j):
        k, (n, seed) = j
        o = os.path.join(d, "m_%d.ndjson" % k)
        ctx.run([vh, "gen", "-n", str(n), "-seed", str(seed), "-out", o] + (["-directed"] if k == 0 else []), timeout=1800, env=env)
        rs = [json.loads(x) for x in open(o) if x.strip()]
        for r in rs:
            r["id"] = k * 100000 + r["id"]
        return rs
    recs = []
    with cf.ThreadPoolExecutor(max_workers=max(1, min(len(jobs), 8))) as ex:
        for x in ex.map(one, list(enumerate(jobs))):
            recs += x
    return recs


def mcat_describe(r, info):
    info = info or {}
    txt = lambda b: bytes(b).decode("latin1")
    return ("midicatdrv id=%s: %s | helper version %r -> New ok=%s%s | ins helper output %r rc=%d -> %s %s | outs %r rc=%d -> %s %s | opened ins %s outs %s, close via %s -> %s, "
            "IsOpen before %s after %s reopened %s | %s" % (
                r["id"], info.get("what"), txt(r["ver"]), r["newok"], " PANIC " + r["newpan"][:100] if r["newpan"] else "",
                txt(r["ins"]["raw"]), r["ins"]["rc"], r["insret"], [(p["num"], txt(p["name"])) for p in r["inslist"]],
                txt(r["outs"]["raw"]), r["outs"]["rc"], r["outsret"], [(p["num"], txt(p["name"])) for p in r["outslist"]],
                r["openin"], r["openout"], r["via"], r["closeret"], r["before"], r["after"], r["reopen"],
                (r["pan"][:200] + " " if r["pan"] else "") + json.dumps(info.get("x"))[:500]))


def mcat_judge(ctx, recs, shards=None):
    bad = ctx.validate("Trace_RegistryMidicat", recs, shards=shards, timeout=1500)
    fails = []
    for idx, info in bad:
        r = recs[idx]
        info = info or {}
        if info.get("genbug"):
            raise Machinery("midicatdrv experiment outside the domain of X05 part M: %s (id %s)" % (json.dumps(info)[:300], r.get("id")))
        fails.append(Failure("registry-mcat:" + info.get("what", "?"), mcat_describe(r, info), {"family": "registry-mcat", "record": r}))
    return fails


def mcat_rerun(ctx, rec):
    vh = ctx.build(PKG_M)
    d = ctx.sub("mreplay")
    i, o = os.path.join(d, "in.ndjson"), os.path.join(d, "out.ndjson")
    open(i, "w").write(json.dumps(rec) + "\n")
    ctx.run([vh, "rerun", "-in", i, "-out", o], timeout=600, env=_mcat_env(ctx))
    new = json.loads(open(o).read())
    bad = ctx.validate("Trace_RegistryMidicat", [new], shards=1)
    info = bad[0][1] if bad else None
    if info and info.get("genbug"):
        raise Machinery("replayed experiment is outside the domain: %s" % info)
    return bool(bad), new, info


def confirm(ctx, f):
    if f.payload["family"] == "registry-mcat":
        return mcat_rerun(ctx, f.payload["record"])[0]
    return rerun(ctx, f.payload["record"])[0]


def run(ctx):
    q = ctx.quick
    ctx.cov["rule"] = (
        "X05 (extension, stated in spec/Registry.tla): R1 Register enters a driver under its name, re-registering a name replaces it, Get is the driver "
        "under the first registered name (nil while empty), drivers.Close / midi.CloseDriver close that driver only; R2 Ins / Outs / GetInPorts / GetOutPorts "
        "give the first driver's listing in order (error resp. empty without driver or when the listing fails), String mentions every port name; R3 InByNumber / "
        "InPort / OutByNumber / OutPort / InByName / OutByName return the FIRST port of the listing with that number / whose name contains the string, opened; "
        "a negative number or an empty name never finds a port; error and no state change without driver / on listing failure / no match / Open failure; "
        "FindInPort / FindOutPort = the same port, closed; R4 SendTo / ListenTo / Track.RecordFrom / SMF.RecordFrom / RecordTo open the port if needed and return an "
        "error iff that Open or Listen fails (returned, no panic, no hang; no listener left), otherwise the port is open, the listener installed and every "
        "delivered channel message reaches the receiver / the recorded track / the written file; the send function hands the bytes to the port and returns Send's "
        "error; R5 every call returns in every state. "
        "G: every transition of MC_Registry's state graph (3 driver instances incl. a re-registered name x 2 ins x 2 outs, every fault set of the config, call "
        "sequences to the config's depth, all query values) executed on the real API behind a shortest path to its source state, result + open flags + "
        "listeners + Get() compared after every call. T: seeded random sequences of 6-40 calls over random layouts (1-4 drivers, 0-3 ports, names over abc, "
        "numbers in or out of listing order, random fault sets), incl. SMF.RecordFrom / RecordTo sequences. evaluations = calls executed and compared; "
        "distinct = sequences that hit an error path of a session helper or a lookup on a faulty driver. "
        "Part M (spec/RegistryMidicat.tla), the process-backed driver midicatdrv as registered driver against a stand-in `midicat` on PATH: M1 New() hands out a driver "
        "for every helper version in [0.6.8, 0.7.0) and refuses versions below 0.6.8 and strings that are no version ([v]MAJOR[.MINOR[.PATCH]], not all zero); "
        "M2 drivers.Ins() / Outs() = the helper's JSON object as ports (Number = index, String = name) in ascending index order, error when the helper fails, prints "
        "garbage or a non-numeric index; M3 Driver.Close() / midi.CloseDriver() leave no listed port open, ports can be opened again; the registered driver is midicatdrv. "
        "Experiments: a table of 36 version strings + random versions around the window, 0-6 ports with shuffled indices, helper exit codes 0-3, 5 kinds of garbage")
    ctx.cov["checker_cmd"] = ("tlc MC_Registry (TypeOK NamesOnce GetIsFirst ListingIsFirstDrivers FoundIsFirstMatch FoundOpenOrClosed NoPortWithError ListeningIsOpen "
                              "FaultyNeverOpen StartedMeansOpenAndListening FailedMeansNoListener SendToMeansOpen Total FindAgreesWithByName NegativeOrEmptyNeverFinds "
                              "+ 13 action properties A_*) ; vh_registry walk ; tlc Trace_Registry (RgOutcomes / RgExplains) ; "
                              "tlc MC_RegistryMidicat (ParseTotal GateIsWindow + ASSUMEd lemmas: examples, parse/print, strict total order, listing = ascending permutation) ; "
                              "vh_registry_mcat ; tlc Trace_RegistryMidicat (RmGate / RmListing)")
    ctx.cov["trusted_base"] = ["TLC", "spec/Registry.tla as the statement of X05",
                               "the fake driver of harness/cmd/vh_registry as an implementation of the drivers.Driver / In / Out contract (Open / Close idempotent, "
                               "Open fails iff configured and leaves the port closed, Close ends listening, Driver.Close closes its ports)",
                               "harness recording: identity of returned ports / drivers by pointer, listener ids by order of successful starts; "
                               "recorded messages counted by byte equality with the injected ones; structural comparison walk step = model state (matches)",
                               "layout of the walk taken from TLC's own output (X05LAYOUT)",
                               "part M: the stand-in helper cmd/midicat_x05 (prints what the environment says; an `in` / `out` helper process just stays alive); "
                               "the five garbage outputs are no JSON objects with string values"]
    ctx.assumptions += [
        "domain: the registry is changed through drivers.Register only (no deletion from the exported map REGISTRY during a sequence); port numbers are >= 0 and unique within the in / the out ports of a driver (drivers.Port.Number)",
        "protocol: one listener per in port (stop before the next ListenTo / RecordFrom on that port), each stop function called once; a send function is used only after SendTo returned it",
        "fault sets are fixed for a sequence (a port that cannot be opened never becomes open)",
        "left open: error texts / which error; a port returned alongside an error; whether a port opened by ListenTo / RecordFrom stays open when Listen then fails; "
        "what SMF.RecordFrom adds to the SMF on its error path; deltas, tempo and file content of recordings beyond the number of recorded messages (C13); "
        "SMF.RecordFrom on a file with SMPTE time format (panics on a type assertion; outside the domain: smf.New() is metric)",
        "InPorts.String / OutPorts.String are judged on the random traces only (the walk compares result and state, not the text)",
        "part M domain: version components 0..65535 without sign or white space, at most one leading v; from 0.7.0 on the gate is left open (only the driver's own message mentions the upper bound); "
        "indices canonical decimals, distinct; HOW New() refuses is left open (it panics); helper processes start (the stand-in is on PATH); in / out ports are only opened and closed here (traffic: C17)",
    ]
    ctx.build(PKG)
    ctx.build(PKG_M)
    _mcat_env(ctx)
    # ---- binding T (runs beside the model check: its recording calls mostly sleep)
    if q:
        jobs = [(500, ctx.seed * 1000, False)] + [(3, ctx.seed * 1000 + 1 + i, True) for i in range(16)]
    else:
        jobs = [(2500, ctx.seed * 1000 + 100 + i, False) for i in range(4)] + [(12, ctx.seed * 1000 + 200 + i, True) for i in range(32)]

    def traces():
        ms = mcat_gen(ctx, [(60 if q else 250, ctx.seed * 1000 + 500 + i) for i in range(4 if q else 8)])
        rs = gen(ctx, jobs)
        return rs, judge(ctx, rs), ms, mcat_judge(ctx, ms)
    pool = cf.ThreadPoolExecutor(max_workers=1)
    fut = pool.submit(traces)
    # ---- model + binding G
    try:
        ctx.model_check("MC_RegistryMidicat", "MC_RegistryMidicat_quick.cfg" if q else "MC_RegistryMidicat.cfg", timeout=1200)
        if q:
            res, nn, ne = walk(ctx, "MC_Registry_quick.cfg")
        else:
            ctx.model_check("MC_Registry", "MC_Registry.cfg", timeout=3000)
            ctx.model_check("MC_Registry", "MC_Registry_faults.cfg", timeout=3000)
            res, nn, ne = walk(ctx, "MC_Registry_walk.cfg")
        fails = []
        if res["bad"]:
            fails = judge(ctx, res["bad"], shards=1)
            if not fails:
                raise Machinery("walker flagged %d sequences that TLC accepts (walk and trace specification disagree)" % len(res["bad"]))
    finally:
        recs, tfails, mrecs, mfails = fut.result()
        pool.shutdown()
    ctx.cov["graph_walk"] = {"model_states": nn, "transitions": ne, "executed": res["paths"], "calls": res["steps"], "unrealised_alternatives": res["skipped"]}
    ctx.cov["traces_validated_against_impl"] += res["paths"]
    ctx.count(res["steps"], [("walk", res["nodes"])])
    feats = Counter()
    hard = []
    for r in recs:
        fs = set()
        for s in r["steps"]:
            fs.add(s["fn"])
            if s["ret"] == "err":
                fs.add("err:" + s["fn"])
            if s["pan"]:
                fs.add("panic")
        for f in fs:
            feats[f] += 1
        if any(f.startswith("err:") and f[4:] in ("SendTo", "Send", "ListenTo", "TrackRecordFrom", "SmfRecordFrom", "RecordTo") for f in fs) or \
                (r["flt"] and any(f.startswith("err:") for f in fs)):
            hard.append(r["id"])
    ncalls = sum(len(r["steps"]) for r in recs)
    ctx.cov["features"] = dict(feats)
    ctx.cov["counts"] = {"sequences": len(recs), "calls": ncalls, "slow_sequences": sum(1 for r in recs if r["note"] == "slow")}
    ctx.log("traces: %d sequences, %d calls, features %s" % (len(recs), ncalls, dict(feats)))
    ctx.count(ncalls, [("seq", i) for i in hard],
              [{"drivers": [d["name"] for d in r["lay"]], "faults": len(r["flt"]), "calls": [fmt_call(s) + "->" + s["ret"] for s in r["steps"][:12]]} for r in recs[:3]])
    need = ["Register", "Get", "CloseDriver", "DriversClose", "Ins", "Outs", "GetInPorts", "GetOutPorts", "InByNumber", "InByName", "OutByNumber", "OutByName",
            "InPort", "OutPort", "FindInPort", "FindOutPort", "SendTo", "Send", "ListenTo", "TrackRecordFrom", "SmfRecordFrom", "RecordTo", "Stop", "Inject", "PortClose",
            "err:InByName", "err:OutByNumber", "err:FindInPort", "err:SendTo", "err:Send", "err:ListenTo", "err:TrackRecordFrom", "err:Ins"]
    if not feats.get("panic"):
        need += ["err:SmfRecordFrom", "err:RecordTo"]
    for n in need:
        if not feats.get(n) and not fails and not tfails:      # (a defect can remove an error path: then the rejected sequences speak)
            raise Machinery("generator did not produce feature %s" % n)
    # ---- part M bookkeeping
    mf = Counter()
    for r in mrecs:
        mf["new_ok" if r["newok"] else "new_refused"] += 1
        for k in ("ins", "outs"):
            mf["%s_%s" % (k, r[k + "ret"])] += 1
            if r[k]["garbage"]:
                mf["garbage"] += 1
            if r[k]["rc"]:
                mf["helper_fails"] += 1
        if any(r["before"]):
            mf["closed_open_ports_via_" + r["via"]] += 1
    ctx.cov["midicatdrv"] = {"experiments": len(mrecs), "features": dict(mf)}
    ctx.log("midicatdrv: %d experiments, %s" % (len(mrecs), dict(mf)))
    ctx.count(4 * len(mrecs), [("m", r["id"]) for r in mrecs if any(r["before"]) or not r["newok"]])
    ctx.cov["traces_validated_against_impl"] += 0
    for n in ("new_ok", "new_refused", "ins_nil", "ins_err", "outs_nil", "outs_err", "garbage", "helper_fails", "closed_open_ports_via_driver", "closed_open_ports_via_registry"):
        if not mf.get(n) and not mfails:
            raise Machinery("midicatdrv generator did not produce feature %s" % n)
    ctx.report(fails + tfails + mfails, lambda f: confirm(ctx, f))


def replay(ctx, payload):
    if payload["payload"].get("family") == "registry-mcat":
        ok, new, info = mcat_rerun(ctx, payload["payload"]["record"])
        print(mcat_describe(new, info)[:3000] if ok else json.dumps({"info": info}))
        return ok
    ok, new, info = rerun(ctx, payload["payload"]["record"])
    print(describe(new, info)[:3000] if ok else json.dumps({"info": info}))
    return ok
