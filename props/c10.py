"""C10 -- I/O failures are reported, never swallowed."""
from props import smf


def run(ctx):
    q = ctx.quick
    ctx.cov["rule"] = ("write side: random API histories; the unfaulted write fixes total; then for EVERY byte offset k < total (strided in the middle above 400 bytes) a destination "
                       "that accepts exactly k bytes, in ten modes (short count + error / error on the crossing write / one transient failure / short count + io.ErrShortWrite / io.EOF / io.ErrClosedPipe / *os.PathError{EPIPE} / *os.PathError{ENOSPC} as the error value), a third of the cases with a logger configured: WriteTo must return an error; without fault: "
                       "nil and size = bytes accepted.  read side: valid files; a source that fails with a sticky non-EOF error after k bytes, for every k (two "
                       "fragmentations): if k is before the end of the last track (computed by TLC with SmfParse!Run) the call must return an error. "
                       "distinct by (file, k, mode); non-trivial = fault strictly inside the stream")
    ctx.cov["checker_cmd"] = "tlc MC_SmfRoundTrip ; tlc Trace_Smf (ev=wfault, ev=rfault)"
    ctx.cov["trusted_base"] = ["TLC", "spec/SmfParse.tla (how many bytes a reader needs)", "harness fault-injecting writer/reader"]
    ctx.model_check("MC_SmfRoundTrip", "MC_SmfRoundTrip_quick.cfg")
    recs = []
    seeds = [ctx.seed] if q else [ctx.seed + i for i in range(4)]
    for s in seeds:
        recs += smf.gen_par(ctx, "wfault", 80 if q else 600, s + 500, "c10", 4 if q else 6, big=True)
        recs += smf.gen_par(ctx, "rfault", 80 if q else 600, s + 600, "c10", 2 if q else 4, big=True)
    fails = smf.validate(ctx, recs)
    n = sum(len(r["faults"]) for r in recs)
    ctx.count(n, [(r["ev"], r["id"], f["k"], f.get("mode", f.get("frag"))) for r in recs for f in r["faults"] if f["k"] > 0],
              [{"ev": r["ev"], "total": r.get("total", len(r.get("bytes", []))), "faults": r["faults"][:5]} for r in recs[:1] + recs[-1:]])
    ctx.cov["traces_validated_against_impl"] = n
    ctx.report(fails, smf.confirm_factory(ctx))


replay = smf.replay
