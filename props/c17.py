"""C17 -- ports deliver exactly while listening, for every order of lifecycle calls."""
import json
import os
from vlib.engine import Failure, Machinery, parse_dot


def walk_testdrv(ctx, depth):
    r = ctx.tlc("MC_Ports", "MC_Ports_walk.cfg", dump=True, workers=4)
    g = parse_dot(r.dot, keep={"ret", "dlv", "n", "s"})
    gp = os.path.join(ctx.sub("graph"), "g.json")
    json.dump(g, open(gp, "w"))
    vh = ctx.build("./cmd/vh_ports")
    o = os.path.join(ctx.sub("walk"), "walk.json")
    ctx.run([vh, "walk", "-graph", gp, "-depth", str(depth), "-out", o], timeout=3600)
    res = json.load(open(o))
    ctx.log("testdrv walk: %d histories of length %d (%d calls) over %d model states, %d mismatching" % (res["paths"], depth, res["steps"], res["nodes"], len(res["bad"])))
    return res


def sig(h, info):
    st = h["steps"][-1] if h["steps"] else {}
    if h.get("race"):
        return "race"
    for s in h["steps"]:
        if s["timeout"]:
            return "%s:timeout:%s" % (h["kind"], s["fn"])
        if s["pan"]:
            return "%s:panic:%s:%s" % (h["kind"], s["fn"], s["pan"][:80])
    i = (info or {}).get("failedStep", 0)
    fn = h["steps"][i - 1]["fn"] if 0 < i <= len(h["steps"]) else "?"
    return "%s:diverge:%s" % (h["kind"], fn)


def describe(h, info):
    calls = " ".join("%s%s->%s%s" % (s["fn"], "(%d)" % s["m"] if s["fn"] == "Send" else "", s["ret"], "".join(" [L%d got %d]" % (d["l"], d["m"]) for d in s["dlv"]))
                     for s in h["steps"])
    if h.get("note", "").startswith("nohook"):
        return "the race detector reports a data race in midicatdrv during a batch of random call histories run without the verification hook (%s): %s" % (
            h["note"], " / ".join(x.strip() for x in h.get("race", "").splitlines()[:14] if x.strip())[:900])
    return "%s history: %s | spec expected at step %s: %s %s" % (h["kind"], calls, (info or {}).get("failedStep"), json.dumps((info or {}).get("expected")), h.get("race", "")[:300])


def validate(ctx, hists):
    bad = ctx.validate("Trace_Ports", hists)
    fails = []
    for idx, info in bad:
        h = hists[idx]
        if info and info.get("genbug"):
            raise Machinery("history generator left the protocol: %s" % describe(h, info))
        fails.append(Failure(sig(h, info), describe(h, info), {"family": "ports", "history": h}))
    fails.sort(key=lambda f: len(f.payload["history"]["steps"]))
    return fails


def rerun(ctx, h):
    if h.get("note", "").startswith("nohook"):
        from props import mcat
        return mcat.rerun_nohook(ctx, h)
    d = ctx.sub("replay")
    i, o = os.path.join(d, "in.ndjson"), os.path.join(d, "out.ndjson")
    open(i, "w").write(json.dumps(h) + "\n")
    if h["kind"] == "testdrv":
        ctx.run([ctx.build("./cmd/vh_ports"), "rerun", "-in", i, "-out", o], timeout=120)
    else:
        from props import mcat
        mcat.rerun(ctx, i, o)
    new = json.loads(open(o).read())
    return bool(ctx.validate("Trace_Ports", [new], shards=1)), new


def rerun_retry(ctx, h, tries=8):
    """histories with concurrent senders / racing stops are schedule dependent: a rejection counts as reproduced if any of a
    few re-executions of the same history on the real driver is rejected again"""
    conc = any(s["fn"] in ("SendPar", "BurstStop") for s in h["steps"]) or h.get("kind") != "testdrv"   # (the process-backed driver works asynchronously)
    for _ in range(tries if conc else 1):
        ok, new = rerun(ctx, h)
        if ok:
            return True
    return False


def run(ctx):
    q = ctx.quick
    ctx.cov["rule"] = ("testdrv: EVERY protocol-respecting call history of length 7 (quick) / 9 (thorough) over {OpenIn, CloseIn, OpenOut, CloseOut, Listen, Stop, Send}, "
                       "enumerated from TLC's state graph of MC_Ports, executed on a fresh real port pair, return value and deliveries compared after each call. "
                       "midicatdrv: seeded random protocol-respecting histories incl. 2-4 concurrent senders, start failure (helper binary missing) against a stand-in "
                       "helper pair joined by a datagram socket, built with -race, every call under a 30 s watchdog; histories judged by TLC with Ports!PStep/ParOk. "
                       "distinct by call sequence; non-trivial = contains a Send while a listener is active")
    ctx.cov["checker_cmd"] = "tlc MC_Ports (lifecycle invariants) ; tlc MC_MidicatIn (PlusCal model of the in port: deadlock freedom, NoCallbackAfterStop, lock discipline) ; vh_ports walk ; vh_mcat ; tlc Trace_Ports"
    ctx.cov["trusted_base"] = ["TLC", "spec/Ports.tla (DESIGN C.7)", "Go race detector for data-race freedom (not a TLA+ notion; the model contributes the lock discipline invariant)",
                               "stand-in midicat helper and the verif-tagged hook used only to wait for quiescence"]
    ctx.assumptions += ["protocol-respecting: Listen only without an active listener; stop of the most recent listener any number of times until the next Listen; "
                        "testdrv in port closed only after stop; ports used from one goroutine except concurrent senders on the process-backed out port",
                        "helper processes do not die by themselves (the property does not say what happens then)",
                        "'after a stop function returns, its listener is never called again' is read as: no listener code runs once stop() has returned "
                        "(a callback in progress when stop() returns counts as a violation; MC_MidicatIn!NoCallbackRunningAfterStop)"]
    ctx.model_check("MC_Ports")
    ctx.model_check("MC_Ports", "MC_Ports_midicat.cfg")
    # the concurrent in port on the model: every interleaving of client / reader / control goroutines / helper
    ctx.model_check("MC_MidicatIn", "MC_MidicatIn.cfg" if q else "MC_MidicatIn_thorough.cfg", timeout=3000)
    # non-vacuity: the start-failure path as it was before its fix must deadlock in the model
    r = ctx.tlc("MC_MidicatIn", "MC_MidicatIn_asis.cfg", must_pass=False, record=False, workers=4)
    if r.violated != "NoDeadlockWhileCalling":
        raise Machinery("regression config MC_MidicatIn_asis no longer deadlocks: the deadlock check is vacuous\n" + r.out[-2000:])
    ctx.cov["model_runs"].append({"module": "MC_MidicatIn", "cfg": "MC_MidicatIn_asis.cfg", "expected_violation": "NoDeadlockWhileCalling", "seen": True})
    res = walk_testdrv(ctx, 7 if q else 9)
    hists = res["bad"]
    for h in hists:
        h.setdefault("race", "")
        if not h.get("events"):
            h["events"] = []
    fails = validate(ctx, hists) if hists else []
    if hists and not fails:
        raise Machinery("walker flagged histories that TLC accepts")
    # every enumerated history is distinct by construction; non-trivial = at least one delivery happened in it
    ctx.count(res["paths"], [("testdrv-history", i) for i in range(res.get("with_delivery", 0))])
    ctx.cov["traces_validated_against_impl"] += res["paths"]
    ctx.cov["exhaustive_testdrv_histories"] = {"length": res["depth"], "histories": res["paths"], "calls": res["steps"]}
    from props import mcat
    fails += mcat.run(ctx)
    ctx.report(fails, lambda f: rerun_retry(ctx, f.payload["history"]))


def replay(ctx, payload):
    ok, new = rerun(ctx, payload["payload"]["history"])
    print(json.dumps(new)[:3000])
    return ok
