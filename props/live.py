"""Shared driver for the live-decoder family C04 / C06 / C14 (see DESIGN section 4)."""
import json
import os
import subprocess
from vlib.engine import Failure, Machinery, parse_dot


def sig_of(info, rec):
    """class signature of a rejected session (for known-findings matching)"""
    if rec.get("panic"):
        p = rec["panic"]
        # drop the chunk number, keep panic value + top frame
        p = p.split(": ", 1)[1] if p.startswith("chunk ") else p
        return "panic:" + p[:160]
    return "diverge:" + rec.get("lvl", "?")


def gen_sessions(ctx, n, long_n, seed, judge, only=None):
    vh = ctx.build()
    d = ctx.sub("livegen")
    out = os.path.join(d, "live.ndjson")
    ctx.run([vh, "live-gen", "-seed", str(seed), "-n", str(n), "-long", str(long_n), "-out", out])
    recs = [json.loads(x) for x in open(out)]
    if only:
        recs = [r for r in recs if only(r)]
    for r in recs:
        r["judge"] = judge
    li = [r for r in recs if r["lvl"] == "listen" and not r["panic"]]
    loose = [r for r in li if not r["exact"]]
    ctx.cov["listen_sessions_clock_origin"] = {"pinned": len(li) - len(loose), "not_pinned": len(loose)}
    if len(loose) > max(5, len(li) // 5):
        raise Machinery("the driver's clock origin could not be pinned in %d of %d listener sessions (machine too loaded): time stamps would go unjudged" % (len(loose), len(li)))
    return recs


def rerun(ctx, rec):
    """re-execute one session alone on a fresh build-equivalent binary and re-judge it with TLC"""
    vh = ctx.build()
    d = ctx.sub("replay")
    i, o = os.path.join(d, "in.ndjson"), os.path.join(d, "out.ndjson")
    clean = dict(rec)
    open(i, "w").write(json.dumps(clean) + "\n")
    ctx.run([vh, "live-rerun", "-in", i, "-out", o])
    new = json.loads(open(o).read())
    new["judge"] = rec.get("judge", "model")
    bad = ctx.validate("Trace_Live", [new], shards=1)
    return bool(bad), new


def rerun_many(ctx, recs):
    """re-execute the sessions in ONE fresh process, in order, and judge the LAST one"""
    vh = ctx.build()
    d = ctx.sub("replayctx")
    i, o = os.path.join(d, "in.ndjson"), os.path.join(d, "out.ndjson")
    with open(i, "w") as fh:
        for r in recs:
            fh.write(json.dumps(r) + "\n")
    ctx.run([vh, "live-rerun", "-in", i, "-out", o], timeout=1800)
    new = json.loads(open(o).read().splitlines()[-1])
    new["judge"] = recs[-1].get("judge", "model")
    bad = ctx.validate("Trace_Live", [new], shards=1)
    return bool(bad), new


def confirm_factory(ctx):
    def confirm(f):
        ok, _ = rerun(ctx, f.payload["session"])
        return ok
    confirm.in_context = lambda before, f: rerun_many(ctx, before + [f.payload["session"]])[0]
    return confirm


def validate_sessions(ctx, recs, what):
    bad = ctx.validate("Trace_Live", recs)
    fails = []
    for idx, info in bad:
        r = recs[idx]
        nbytes = sum(len(c["bytes"]) for c in r["chunks"])
        fails.append(Failure(sig_of(info, r),
                             "%s: session id=%s lvl=%s cap=%s sysex=%s as=%s tc=%s bytes=%d panic=%r expected(first chunks)=%s"
                             % (what, r["id"], r["lvl"], r["cap"], r["sysex"], r["as"], r["tc"], nbytes, r["panic"],
                                json.dumps(info.get("expected"))[:300] if info else ""),
                             {"family": "live", "session": r}))
        fails[-1].before = recs[max(0, idx - 400):idx]
    # prefer short sessions for reporting
    fails.sort(key=lambda f: sum(len(c["bytes"]) for c in f.payload["session"]["chunks"]))
    return fails


def graph(ctx, cfgname="MC_LiveG.cfg"):
    r = ctx.tlc("MC_LiveG", cfgname, dump=True, workers=8)
    g = parse_dot(r.dot, keep={"out", "cfg"})
    gp = os.path.join(ctx.sub("graph"), "g.json")
    json.dump(g, open(gp, "w"))
    os.remove(r.dot)
    ne = sum(len(v) for v in g["edges"].values())
    ctx.log("graph: %d nodes, %d edges, %d initial" % (len(g["nodes"]), ne, len(g["inits"])))
    return gp, len(g["nodes"]), ne


def walk(ctx, gp, lvl, depth, budget, judge, mode="model"):
    vh = ctx.build()
    o = os.path.join(ctx.sub("walk"), "walk.json")
    try:
        ctx.run([vh, "live-walk", "-graph", gp, "-depth", str(depth), "-lvl", lvl, "-out", o, "-budget", str(budget),
                 "-seed", str(ctx.seed), "-mode", mode], timeout=300 if ctx.quick else 5400)
    except subprocess.TimeoutExpired:
        # (the walk has no per-call watchdog: a call of the real decoder that never returns ends here; the sessions, which
        # have one, report it -- see finish())
        ctx.log("walk lvl=%s mode=%s did not finish in time" % (lvl, mode))
        ctx.timed_out = getattr(ctx, "timed_out", []) + ["walk"]
        return {"sequences": 0, "steps": 0, "mismatches": []}, []
    res = json.load(open(o))
    ctx.log("walk lvl=%s mode=%s depth=%d: %d sequences, %d steps, %d mismatches" % (lvl, mode, depth, res["sequences"], res["steps"], len(res["mismatches"])))
    ctx.cov["traces_validated_against_impl"] += res["sequences"]
    fails = []
    for m in res["mismatches"]:
        s = m["session"]
        s["judge"] = judge
        s.setdefault("panic", "")
        s.setdefault("twin", [])
        s.setdefault("twinbase", 0)
        if not s.get("prev"):
            s["prev"] = []
        inp = [c["bytes"][0] for c in s["chunks"][(1 if lvl == "listen" else 0):]]
        fails.append(Failure("walk:%s:%s" % (lvl, mode), "graph walk (%s, %s): cfg cap=%s sysex=%s as=%s tc=%s input=%s step=%d expected=%s got=%s"
                             % (lvl, mode, s["cap"], s["sysex"], s["as"], s["tc"], " ".join("%02X" % b for b in inp), m["step"], m["expected"], m["got"]),
                             {"family": "live", "session": s}))
    fails.sort(key=lambda f: len(f.payload["session"]["chunks"]))
    return res, fails


def closure(ctx, gp, judge="model"):
    """product of the real byte reader (verif hook: snapshot + clone) and the model's state graph, explored to closure"""
    vh = ctx.build()
    o = os.path.join(ctx.sub("closure"), "closure.json")
    try:
        ctx.run([vh, "live-closure", "-graph", gp, "-out", o], timeout=300 if ctx.quick else 3600)
    except subprocess.TimeoutExpired:
        ctx.log("closure exploration did not finish in time")
        ctx.timed_out = getattr(ctx, "timed_out", []) + ["closure"]
        return []
    res = json.load(open(o))
    ctx.log("closure (driver level): %d (reader state, model state) pairs over %d model states, %d steps, closed=%s, %d mismatches"
            % (res["pairs"], res["model_nodes"], res["steps"], res["closed"], len(res["mismatches"])))
    ctx.cov["closure"] = {"pairs": res["pairs"], "steps": res["steps"], "closed": res["closed"]}
    fails = []
    for m in res["mismatches"]:
        s = m["session"]
        s["judge"] = judge
        s.setdefault("panic", "")
        s.setdefault("twin", [])
        s.setdefault("twinbase", 0)
        if not s.get("prev"):
            s["prev"] = []
        inp = [c["bytes"][0] for c in s["chunks"]]
        fails.append(Failure("closure:reader", "closure exploration (driver level): cfg cap=%s sysex=%s input=%s step=%d expected=%s got=%s"
                             % (s["cap"], s["sysex"], " ".join("%02X" % b for b in inp), m["step"], m["expected"], m["got"]),
                             {"family": "live", "session": s}))
    if not res["closed"] and not fails:
        ctx.note("closure exploration hit its pair limit before closing (the real reader has far more states than the model)")
    return fails


def replay(ctx, payload):
    if payload["payload"].get("context"):
        ok, new = rerun_many(ctx, payload["payload"]["context"] + [payload["payload"]["session"]])
    else:
        ok, new = rerun(ctx, payload["payload"]["session"])
    print(json.dumps({"reexecuted": new})[:3000])
    return ok


def finish(ctx):
    """after ctx.report: a graph walk that did not finish is only acceptable if the sessions explained it with a violation"""
    if getattr(ctx, "timed_out", None) and not ctx.violations:
        raise Machinery("%s did not finish in time and no session shows why" % ", ".join(ctx.timed_out))
