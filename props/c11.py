"""C11 -- tick-to-time conversion follows the tempo map exactly (SMF.TimeAt, TracksReader.Do, MetricTicks.Duration/Ticks)."""
import json
import os
from collections import Counter
from vlib.engine import Failure, Machinery

PKG = "./cmd/vh_tempo"


def _gen(ctx, cmd, name):
    vh = ctx.build(PKG)
    out = os.path.join(ctx.sub(name), name + ".ndjson")
    ctx.run([vh] + cmd + ["-out", out], timeout=3600)
    return [json.loads(x) for x in open(out)]


def _num(digits):
    return int("".join(map(str, digits or [0])))


def _limbs(l):
    return sum(x << (15 * i) for i, x in enumerate(l or []))


def signature(rec, info):
    info = info or {}
    what = info.get("what", "?")
    if rec.get("ev") == "inv":
        return "inv:" + what
    if what == "err":
        return "map:err:" + str(info.get("err", ""))[:80]
    tick = None
    if "tick" in info:
        tick = _num(info["tick"])
    elif "tickl" in info:
        tick = _limbs(info["tickl"])
    wide = ":tick>=2^32" if tick is not None and tick >= 1 << 32 else ""
    return "map:%s:%s%s" % (what, info.get("verdict", ""), wide)


def describe(rec, info):
    info = dict(info or {})
    s = "%s id=%s " % (rec.get("ev"), rec.get("id"))
    if rec.get("ev") == "map":
        tm = [(_num(e["d"]["d"]), e["u"]) for e in rec["tracks"][rec["tt"] - 1]["evs"]]
        s += "res=%d tempo-track (delta,uspq|-1)[%d]=%s " % (rec["res"], len(tm), tm[:24])
        for k in ("tick", "got", "before"):
            if k in info:
                info[k] = _num(info[k])
        if "tickl" in info:
            info["tick"] = _limbs(info.pop("tickl"))
        if "num" in info:
            info["exact_us"] = "%d/%d" % (_limbs(info.pop("num")), rec["res"])
    else:
        for k in ("mant", "ticks", "dur", "back"):
            if k in info:
                info[k] = _num(info[k])
    return s + json.dumps(info)[:900]


def judge(ctx, recs, shards=None):
    bad = ctx.validate("Trace_Tempo", recs, shards=shards)
    fails = []
    for idx, info in bad:
        r = recs[idx]
        if info and info.get("genbug"):
            raise Machinery("generator produced a record the specification places outside the domain of C11 / malformed: %s (record id %s)"
                            % (json.dumps(info)[:400], r.get("id")))
        fails.append(Failure(signature(r, info), describe(r, info), {"family": "tempo", "record": r}))
        fails[-1].before = [x for x in recs[max(0, idx - 400):idx]]
    fails.sort(key=lambda f: len(json.dumps(f.payload)))
    return fails


def rerun(ctx, rec, before=()):
    vh = ctx.build(PKG)
    d = ctx.sub("replay")
    i, o = os.path.join(d, "in.ndjson"), os.path.join(d, "out.ndjson")
    with open(i, "w") as fh:       # the cases `before` are executed first, in the same fresh process
        for b in list(before) + [rec]:
            fh.write(json.dumps(b) + "\n")
    ctx.run([vh, "tempo-rerun", "-in", i, "-out", o], timeout=1800)
    new = json.loads(open(o).read().splitlines()[-1])
    bad = ctx.validate("Trace_Tempo", [new], shards=1)
    if bad and bad[0][1] and bad[0][1].get("genbug"):
        raise Machinery("replayed record is outside the domain: %s" % bad[0][1])
    return bool(bad), new, (bad[0][1] if bad else None)


def run(ctx):
    q = ctx.quick
    ctx.cov["rule"] = ("random metric-time files built through the public API: 1-3 tracks, the tempo events (smf.MetaUndefined(0x51, 3 bytes): every 24-bit "
                       "us/quarter incl. 0, 1, 2^24-1) in one track among other events, resolutions 1..32767, deltas from 0 to 2^32-1, repeated ticks, bursts of "
                       "13-32 changes on one tick, first change at / after tick 0, no tempo event; WriteTo + ReadFrom; SMF.TimeAt at 0,1,2, every sampled change "
                       "tick -1/+0/+1/+2, track ends, the horizon tick and random ticks (exact time < 2^41 us); TracksReader.Do AbsMicroSeconds of every event, and of the events handed out under six type filters (Only: note-on / channel / meta / tempo / mixed lists); "
                       "MetricTicks.Duration/Ticks on (res 0..65535, bpm float64, ticks uint32) triples inside the domain (duration < 2^40 us, < 10^7 ticks/s). "
                       "evaluations = judged TimeAt queries + Do events + inverse triples; distinct = maps with a non-trivial feature (repeated tick, >12 on a "
                       "tick, first change after 0, extreme uspq, ticks >= 2^32)")
    ctx.cov["checker_cmd"] = "tlc MC_Tempo (definition = segment form, monotone, split, equal-tick, BigNat = native, tolerance sanity) ; tlc Trace_Tempo (TpNum / TpWithin / TpDurWithin in BigNat)"
    ctx.cov["trusted_base"] = ["TLC", "spec/Tempo.tla as the reading of SMF 1.0 Set Tempo / division", "spec/BigNat.tla (checked against native integers by MC_Tempo, limbs re-derived from decimal digits per number)",
                               "harness recording; float64 -> (mantissa, exponent) by math.Float64bits for the inverse triples"]
    ctx.assumptions += [
        "domain: metric time format, resolution 1..32767, all tempo events in one track; exact time of a judged tick below 2^41 us (about 25 days); later events are not judged",
        "tolerance: one us per non-empty tempo segment (distinct change ticks strictly between 0 and the tick, plus the final partial segment) + 0.01 us",
        "us/quarter = 0 (infinite BPM) is taken literally: such a segment takes no time",
        "inverse law: duration < 2^40 us, tick rate < 10^7/s, bpm a positive normal float64; MetricTicks(0) means 960 (documented); Duration must be within 1 ns of the exact rational",
        "ticks are non-negative; tick arguments of TimeAt and absolute event ticks may exceed 2^32 (int64 API, deltas add up) as long as the time stays below the horizon",
    ]
    mc = ctx.model_check("MC_Tempo", "MC_Tempo_quick.cfg" if q else "MC_Tempo.cfg", timeout=1500)
    seeds = [ctx.seed] if q else [ctx.seed * 100 + i for i in range(4)]
    maps, invs = [], []
    # VERIF_C11_NARROW=1 keeps every tick below 2^32 (diagnostic: isolates the 32-bit truncation finding C11_1)
    narrow = ["-wide=false"] if os.environ.get("VERIF_C11_NARROW") else []
    for s in seeds:
        maps += _gen(ctx, ["tempo-gen", "-n", str(200 if q else 1250), "-q", str(50 if q else 200), "-seed", str(s)] + narrow, "maps")
        invs += _gen(ctx, ["tempo-inv", "-n", str(5000 if q else 25000), "-per", "50", "-seed", str(s)], "inv")
    # interleave the two kinds so that the shards of the trace validation carry equal work
    recs, step = [], max(1, len(maps) // max(1, len(invs)))
    for i, r in enumerate(invs):
        recs += maps[i * step:(i + 1) * step] + [r]
    recs += maps[len(invs) * step:]
    fails = judge(ctx, recs)
    nq = sum(len(r["queries"]) for r in maps)
    ne = sum(len(t) for r in maps for t in r["do"])
    nt = sum(len(r["triples"]) for r in invs)
    feats = Counter(f for r in maps for f in r["feat"])
    ctx.cov["features"] = dict(feats)
    ctx.cov["counts"] = {"maps": len(maps), "timeat_queries": nq, "do_events": ne, "inverse_triples": nt}
    ctx.log("maps=%d queries=%d do-events=%d triples=%d features=%s" % (len(maps), nq, ne, nt, dict(feats)))
    ctx.count(nq + ne + nt, [r["id"] for r in maps if r["feat"] and r["feat"] != ["first_at_0"]],
              [{"res": r["res"], "tempo_events": sum(1 for e in r["tracks"][r["tt"] - 1]["evs"] if e["u"] >= 0), "feat": r["feat"],
                "first_queries": [(_num(x["t"]["d"]), _num(x["r"]["d"])) for x in r["queries"][:4]]} for r in maps[:3]])

    def confirm(f):
        return rerun(ctx, f.payload["record"])[0]
    confirm.in_context = lambda before, f: rerun(ctx, f.payload["record"], before)[0]
    ctx.report(fails, confirm)


def replay(ctx, payload):
    rec = payload["payload"]["record"]
    ok, new, info = rerun(ctx, rec, payload["payload"].get("context") or ())
    print(describe(new, info)[:3000] if ok else json.dumps({"info": info}))
    return ok
