"""C05 -- reading malformed or truncated SMF data fails cleanly and never fabricates."""
import json
from props import smf


def run(ctx):
    q = ctx.quick
    ctx.cov["rule"] = ("(i) every proper prefix (every byte offset; strided in the middle of files > 600 bytes) of valid files from two sources -- the byte-level "
                       "generator of C02 and the library's own writer -- read by the real reader; TLC decodes the ORIGINAL with SmfParse!Decode and checks each "
                       "result is an error or a value with the original header whose tracks are event-for-event prefixes; (ii) arbitrary bytes: random, "
                       "header+random, up to 65535 minimal track chunks, one track of 6000-20000 two/three-byte events, grammar-blind mutations of valid files (flip/insert/delete/boundary length fields/class replacement/splice); "
                       "every call under recover, a 30 s watchdog and a TotalAlloc measurement; distinct by content; non-trivial = at least 16 bytes")
    ctx.cov["checker_cmd"] = "tlc MC_SmfGen (IncompleteRejected: no incomplete file is accepted as complete) ; tlc Trace_Smf (ev=cut, ev=any)"
    ctx.cov["trusted_base"] = ["TLC", "spec/SmfParse.tla", "harness: recover/watchdog/ReadMemStats and the structural prefix comparison against the library's own full read "
                               "(TLC checks that full read equals Decode(original); on any doubt complete values are logged and TLC compares them itself)"]
    ctx.assumptions += ["memory bound: TotalAlloc(KiB) <= len(input bytes) + 8192, i.e. ~1 KiB per input byte + 8 MiB; the constant covers the one Track header per DECLARED track (ntrks is 16 bit: at most ~4 MiB)",
                        "which of error / prefix value is returned at which cut is not specified (histogram in evidence)"]
    ctx.model_check("MC_SmfGen", "MC_SmfGen_quick.cfg")
    recs, hist = [], {}
    seeds = [ctx.seed] if q else [ctx.seed + i for i in range(4)]
    for s in seeds:
        cuts = smf.gen(ctx, "cut", 60 if q else 500, s + 200, "c05", big=True)
        anys = smf.gen(ctx, "any", 3000 if q else 30000, s + 300, "c05")
        recs += cuts + anys
        for c in cuts:
            for x in c["cuts"]:
                hist[x["kind"]] = hist.get(x["kind"], 0) + 1
        for a in anys:
            hist["any:" + a["kind"]] = hist.get("any:" + a["kind"], 0) + 1
    ncuts = sum(len(r["cuts"]) for r in recs if r["ev"] == "cut")
    fails = smf.validate(ctx, recs)
    ctx.count(ncuts + sum(1 for r in recs if r["ev"] == "any"), [hash(bytes(r["bytes"])) for r in recs if len(r["bytes"]) >= 16],
              [{"ev": "cut", "len": len(r["bytes"]), "cuts": [[c["k"], c["kind"], c["counts"]] for c in r["cuts"][:30:3]]} for r in recs if r["ev"] == "cut"][:1]
              + [{"ev": "any", "src": r["src"], "bytes": r["bytes"][:50], "kind": r["kind"], "msg": r["msg"][:80], "allocKiB": r["alloc"]} for r in recs if r["ev"] == "any"][:3])
    ctx.cov["outcome_histogram"] = hist
    ctx.cov["max_alloc_kib_per_input_kib"] = max([0] + [round(c["alloc"] / max(1, c["k"] / 1024), 1) for r in recs if r["ev"] == "cut" for c in r["cuts"] if c["k"] > 4096])
    ctx.report(fails, smf.confirm_factory(ctx))


replay = smf.replay
