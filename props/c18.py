"""C18 -- checksummed and fixed-layout sysex helpers parse what they build (sysex.Manufacturer, mmc.Message, mmc.GoTo)."""
import json
import os
from vlib.engine import Failure, Machinery

PKG = "./cmd/vh_sysex"


def _gen(ctx, seed, nsx, nloc):
    vh = ctx.build(PKG)
    out = os.path.join(ctx.sub("sysexgen"), "sx.ndjson")
    ctx.run([vh, "sysex-gen", "-seed", str(seed), "-nsx", str(nsx), "-nloc", str(nloc), "-out", out], timeout=1800)
    return [json.loads(x) for x in open(out)]


def _rerun(ctx, rec, before=()):
    vh = ctx.build(PKG)
    d = ctx.sub("replay")
    i, o = os.path.join(d, "in.ndjson"), os.path.join(d, "out.ndjson")
    with open(i, "w") as fh:       # the cases `before` are executed first, in the same fresh process
        for b in list(before) + [rec]:
            fh.write(json.dumps(b) + "\n")
    ctx.run([vh, "sysex-rerun", "-in", i, "-out", o], timeout=1800)
    new = json.loads(open(o).read().splitlines()[-1])
    bad = ctx.validate("Trace_Sysex", [new], shards=1)
    if bad and bad[0][1] and bad[0][1].get("genbug"):
        raise Machinery("record outside the property's domain / inconsistent bookkeeping: %s" % bad[0][1])
    return bool(bad), new, (bad[0][1] if bad else None)


def signature(rec, info):
    info = info or {}
    ev = rec.get("ev")
    if ev == "sx":
        ev = "sx:req" if rec.get("req") else "sx:set"
    if not info.get("bytesOk", True):
        return ev + ":build-bytes"
    if not info.get("sumOk", True) or not info.get("specReads", True):
        return ev + ":built-not-readable-by-spec"
    if rec.get("pkind") != "ok":
        return "%s:valid-rejected:%s" % (ev, rec.get("pkind"))
    if not info.get("valueOk", True):
        return ev + ":value-differs"
    if info.get("notRejected") or info.get("sampleNotRejected"):
        f = (info.get("first") or [{}])[0]
        return "%s:corruption-%s" % (ev, {"ok": "accepted"}.get(f.get("kind"), f.get("kind")))
    return ev + ":?"


def describe(rec, info):
    hx = " ".join("%02X" % b for b in rec["bytes"][:40]) + (" .." if len(rec["bytes"]) > 40 else "")
    if rec["ev"] == "sx":
        inp = "man=%d dev=%d model=%d req=%s addr=%s %s" % (rec["man"], rec["dev"], rec["model"], rec["req"], rec["addr"],
                                                            ("size=%s" % rec["size"]) if rec["req"] else ("payload[%d]" % len(rec["data"])))
    elif rec["ev"] == "mmc":
        inp = "mmc.Message dev=%d cmd=0x%02X" % (rec["dev"], rec["cmd"])
    else:
        inp = "mmc.GoTo dev=%d tc=%s" % (rec["dev"], rec["tc"])
    return "%s id=%s %s built[%d]=%s parse=%s %s %s" % (rec["ev"], rec["id"], inp, len(rec["bytes"]), hx, rec["pkind"], rec["pmsg"][:80],
                                                     json.dumps(info)[:700])


def _slim(rec):
    """replay payload: inputs only (outputs are recomputed)"""
    r = dict(rec)
    r["noterr"], r["sample"] = [], []
    return r


def _validate(ctx, recs):
    bad = ctx.validate("Trace_Sysex", recs)
    fails = []
    for idx, info in bad:
        r = recs[idx]
        if info and info.get("genbug"):
            raise Machinery("generator/bookkeeping problem (not a violation): %s" % json.dumps(info)[:600])
        fails.append(Failure(signature(r, info), describe(r, info), {"family": "sysex", "record": _slim(r)}))
        fails[-1].before = [_slim(x) for x in recs[max(0, idx - 400):idx]]
    fails.sort(key=lambda f: len(json.dumps(f.payload)))
    return fails


def run(ctx):
    q = ctx.quick
    ctx.cov["rule"] = ("seeded Roland-style values (7-bit manufacturer/device/model ids, 3 address bytes, data sets with payloads 1..512 incl. length and value "
                       "boundaries and sums that are multiples of 128, data requests with 3 size bytes) built by Manufacturer.SysEx(), parsed back by sysex.Parse; for "
                       "each message ALL (3+n+1)x127 single-byte corruptions of address/body/checksum are parsed by the real code (any outcome other than an error is "
                       "recorded in full, a 200-per-message sample is re-judged by the specification's parser); all 127x63 (device, plain command) MMC pairs; MMC locate "
                       "over 3x4^5 boundary time codes + random edge-biased time codes.  distinct key = (kind, body length, checksum byte) / (dev,cmd) / (dev,tc)")
    ctx.cov["checker_cmd"] = ("tlc MC_Sysex (RoundTrip ChecksumZero CorruptRejected OnlyBuilt Disjoint) ; vh_sysex sysex-gen ; tlc Trace_Sysex "
                              "(bytes = SxBuild(v), SxSumZero, SxParse(bytes) = v, real parse = v, no corruption accepted, spec rejects every sampled corruption)")
    ctx.cov["trusted_base"] = ["TLC", "spec/Sysex.tla as the reading of the Roland checksum convention and the MMC layout",
                               "harness recording (byte overwrite loop and err==nil classification; positions/values of a sample are re-checked by TLC)"]
    ctx.assumptions += ["domain: all id/address/data/size bytes are 7-bit (0..127); the unused field of a value is empty/zero (data for a request, size for a data set)",
                        "MMC device ids 1..127, plain commands 1..63 (0 is reserved); locate time code fields are any 7-bit bytes",
                        "corruptions of framing/header bytes (F0, ids, command, F7) are outside the property and only checked on the model (OnlyBuilt)"]
    ctx.model_check("MC_Sysex", "MC_Sysex.cfg" if q else "MC_Sysex_thorough.cfg", timeout=1500)
    seeds = [ctx.seed] if q else [ctx.seed * 1000 + i for i in range(4)]
    recs = []
    for s in seeds:
        part = _gen(ctx, s, 250 if q else 2000, 3000 if q else 25000)
        if recs:   # the exhaustive MMC table and the fixed boundary records are the same for every seed
            part = [r for r in part if r["ev"] != "mmc" and "boundary" not in r["feat"]]
        recs += part
    sx = [r for r in recs if r["ev"] == "sx"]
    ntried = sum(r["ntried"] for r in sx)
    ctx.cov["sx_messages"] = len(sx)
    ctx.cov["corruptions_executed_on_real_code"] = ntried
    ctx.cov["corruptions_not_rejected"] = sum(len(r["noterr"]) for r in sx)
    ctx.cov["corruption_samples_judged_by_TLC"] = sum(len(r["sample"]) for r in sx)
    ctx.cov["mmc_pairs"] = len([r for r in recs if r["ev"] == "mmc"])
    ctx.cov["locate_messages"] = len([r for r in recs if r["ev"] == "loc"])
    ctx.cov["payload_lengths"] = {"min": min(len(r["data"]) for r in sx if not r["req"]), "max": max(len(r["data"]) for r in sx if not r["req"]),
                                  "requests": len([r for r in sx if r["req"]])}
    feats = {}
    for r in recs:
        for f in r["feat"]:
            feats[f] = feats.get(f, 0) + 1
    ctx.cov["features"] = feats
    ctx.log("generated %d records: %d roland messages (%d corruptions executed, %d not rejected), %d mmc pairs, %d locate" %
            (len(recs), len(sx), ntried, ctx.cov["corruptions_not_rejected"], ctx.cov["mmc_pairs"], ctx.cov["locate_messages"]))
    if ctx.cov["mmc_pairs"] != 127 * 63:
        raise Machinery("MMC table incomplete: %d pairs" % ctx.cov["mmc_pairs"])
    fails = _validate(ctx, recs)

    def key(r):
        if r["ev"] == "sx":
            return ("sx", r["req"], len(r["data"]), r["bytes"][-2] if len(r["bytes"]) > 2 else -1)
        if r["ev"] == "mmc":
            return ("mmc", r["dev"], r["cmd"])
        return ("loc", r["dev"], tuple(r["tc"]))
    ctx.count(len(recs) + ntried, [key(r) for r in recs],
              [{"ev": r["ev"], "addr": r["addr"], "payload_len": len(r["data"]), "req": r["req"], "built_tail": r["bytes"][-3:], "parse": r["pkind"],
                "corruptions_tried": r["ntried"], "not_rejected": len(r["noterr"])} for r in sx[4:5] + sx[8:9]] +
              [{"ev": r["ev"], "dev": r["dev"], "cmd": r["cmd"], "tc": r["tc"], "built": r["bytes"], "parse": r["pkind"]}
               for r in ([x for x in recs if x["ev"] == "mmc"][:1] + [x for x in recs if x["ev"] == "loc"][-1:])])

    def confirm(f):
        return _rerun(ctx, f.payload["record"])[0]
    confirm.in_context = lambda before, f: _rerun(ctx, f.payload["record"], before)[0]
    ctx.report(fails, confirm)


def replay(ctx, payload):
    rec = payload["payload"]["record"]
    ok, new, info = _rerun(ctx, rec, payload["payload"].get("context") or ())
    print(json.dumps({"info": info})[:3000])
    return ok
