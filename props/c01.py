"""C01 -- SMF write/read round trip is the identity on file content."""
from props import smf


def run(ctx):
    q = ctx.quick
    ctx.cov["rule"] = ("random public-API histories (New/NewSMF1/NewSMF2, TimeFormat metric 1..32767 / 4 SMPTE rates, NoRunningStatus, Track.Add single+multi, "
                       "Track.Close early/late/omitted, SMF.Add; channel/meta/sysex/escape messages, payloads to 20000 bytes, deltas over the whole uint32 range) "
                       "executed on the real library, written, read back; TLC replays the history through SmfWrite!Build/Canon and compares the read-back value. "
                       "distinct by history hash; non-trivial = uses a multi-byte delta, same-status neighbours, SMPTE, a >=128-byte payload, multi-Add or an early/omitted Close")
    ctx.cov["checker_cmd"] = "tlc MC_SmfRoundTrip (Decode(Encode(Canon f)) = Canon f, canonical, both rs options) ; tlc Trace_Smf judge=c01"
    ctx.cov["trusted_base"] = ["TLC", "spec/SmfWrite.tla Build/Canon as the meaning of an API history (DESIGN C.1)", "harness recording"]
    ctx.assumptions += ["out of domain: meta type 0x2F with payload, system common/real-time bytes as track messages, MetricTicks 0 or >32767, messages not built well-formed",
                        "each SMF.Add receives a fresh or finished track variable (no aliasing of one Track slice by two file entries)"]
    ctx.model_check("MC_SmfRoundTrip", "MC_SmfRoundTrip_quick.cfg" if q else "MC_SmfRoundTrip.cfg", timeout=3000)
    recs = []
    seeds = [ctx.seed] if q else [ctx.seed + i for i in range(4)]
    for s in seeds:
        recs += smf.gen(ctx, "wr", 400 if q else 4000, s, "c01", big=True, fulldelta=True)
    # small-scope exhaustive: every history of up to 2 (quick) / 3 (thorough) events over the model's event alphabet
    xrecs = smf.gen(ctx, "wrx", 2 if q else 3, 0, "c01")
    ctx.cov["exhaustive_small_scope"] = {"max_events": 2 if q else 3, "histories": len(xrecs)}
    recs += xrecs
    fails = smf.validate(ctx, recs)
    nt = {"exhaustive_small", "multibyte_delta", "same_status", "smpte", "long_payload", "multi_add", "early_close", "close_omitted"}
    ctx.count(len(recs), [hash(json_key(r)) for r in recs if nt & set(r["feat"])],
              [{"hist": r["hist"][:6], "nbytes": len(r["bytes"]), "read_kind": r["read"]["kind"], "feat": r["feat"]} for r in recs[:2]])
    ctx.cov["features"] = smf.feats(recs)
    ctx.report(fails, smf.confirm_factory(ctx))


def json_key(r):
    import json
    return json.dumps(r["hist"], sort_keys=True)


replay = smf.replay
