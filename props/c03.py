"""C03 -- SMF encoding emits structurally valid, deterministic SMF 1.0 files."""
import json
from props import smf


def run(ctx):
    q = ctx.quick
    ctx.cov["rule"] = ("random API histories (domain of C01, deltas <= 0x0FFFFFFF) written by the real writer; the bytes are parsed by the TLA+ strict parser "
                       "(SmfParse!Decode with canon flag: header length 6, ntrks = number of MTrk chunks, exact chunk lengths, one EOT last, minimal VLQs <= 4 bytes, "
                       "legal running status, no alien chunks, no trailing bytes) and must give Canon(history); size = len; second write identical. "
                       "VLQ: sweep of delta values through Track.Add/WriteTo/ReadFrom with the transcribed canonical-form invariant (see vlq section)")
    ctx.cov["checker_cmd"] = "tlc MC_SmfRoundTrip ; tlc MC_Vlq ; apalache-mc ApaVlq (Decomp, Unique: all 2^28 values, symbolic) ; tlc Trace_Smf judge=c03 ; vh vlq-sweep ; tlc Trace_Vlq"
    ctx.cov["trusted_base"] = ["TLC", "spec/SmfParse.tla as the strict SMF 1.0 parser", "spec/Vlq.tla", "harness recording", "VlqCanonical transcription in the sweep (validated by TLC on samples each run)"]
    ctx.model_check("MC_SmfRoundTrip", "MC_SmfRoundTrip_quick.cfg" if q else "MC_SmfRoundTrip.cfg", timeout=3000)
    ctx.model_check("MC_Vlq")
    # unbounded part, symbolically for all n < 2^28: digit decomposition and uniqueness of the canonical form
    ctx.apalache("ApaVlq", "Decomp")
    ctx.apalache("ApaVlq", "Unique")
    recs = []
    seeds = [ctx.seed] if q else [ctx.seed + i for i in range(4)]
    for s in seeds:
        recs += smf.gen(ctx, "wr", 400 if q else 4000, s + 50, "c03", big=True, fulldelta=False)
    # the size clause also under failing destinations (fault-injecting writer of C10, judged here for the size only)
    recs += smf.gen_par(ctx, "wfault", 24 if q else 300, ctx.seed + 55, "c03", 4, big=False)
    xrecs = smf.gen(ctx, "wrx", 2 if q else 3, 0, "c03")   # small-scope exhaustive over the model's event alphabet
    ctx.cov["exhaustive_small_scope"] = {"max_events": 2 if q else 3, "histories": len(xrecs)}
    recs += xrecs
    fails = smf.validate(ctx, recs)
    nt = {"exhaustive_small", "multibyte_delta", "same_status", "smpte", "long_payload", "multi_add", "early_close", "close_omitted"}
    ctx.count(len(recs), [hash(json.dumps(r["hist"], sort_keys=True)) for r in recs if nt & set(r.get("feat") or [])],
              [{"hist": r["hist"][:6], "bytes_head": r["bytes"][:40], "size": r["size"], "feat": r["feat"]} for r in recs[:2]])
    # VLQ sweep (X): boundaries + random in quick, all 2^28 in thorough
    from props import vlqsweep
    fails += vlqsweep.run(ctx)
    scf = smf.confirm_factory(ctx)

    def confirm(f):
        return vlqsweep.confirm(ctx, f) if f.payload.get("family") == "vlq" else scf(f)
    confirm.in_context = scf.in_context       # (only the SMF records carry a history)
    ctx.report(fails, confirm)


def replay(ctx, payload):
    from props import vlqsweep
    if payload["payload"].get("family") == "vlq":
        return vlqsweep.replay(ctx, payload)
    return smf.replay(ctx, payload)
