"""X04 (extension) -- universal system exclusive messages have the layout the MIDI specification prescribes
(v2/sysex real time / non real time helpers, v2/mmc builders, midi.SysEx + GetSysEx, gm.Reset / gm.GMProgram, gm percussion keys)."""
import json
import os
from vlib.engine import Failure, Machinery

PKG = "./cmd/vh_usysex"
TRACE = "Trace_UniversalSysex"


def _gen(ctx, seed, n, full):
    vh = ctx.build(PKG)
    out = os.path.join(ctx.sub("usysexgen"), "ux.ndjson")
    ctx.run([vh, "usysex-gen", "-seed", str(seed), "-n", str(n), "-out", out] + (["-full"] if full else []), timeout=1800)
    return [json.loads(x) for x in open(out)]


def _rerun(ctx, rec, context=()):
    """the record is executed first, the calls of its context after it; results are looked at when all calls have been made"""
    vh = ctx.build(PKG)
    d = ctx.sub("replay")
    i, o = os.path.join(d, "in.ndjson"), os.path.join(d, "out.ndjson")
    open(i, "w").write("".join(json.dumps(x) + "\n" for x in [rec] + list(context)))
    ctx.run([vh, "usysex-rerun", "-in", i, "-out", o], timeout=600)
    new = json.loads(open(o).read().splitlines()[0])
    bad = ctx.validate(TRACE, [new], shards=1)
    if bad and bad[0][1] and bad[0][1].get("genbug"):
        raise Machinery("record outside what the Go signature can carry / unknown helper: %s" % bad[0][1])
    return bool(bad), new, (bad[0][1] if bad else None)


def signature(rec, info):
    info = info or {}
    h = rec.get("h", "?")
    pkg = h.split(".")[0]
    pkg = {"rt": "sysex", "nrt": "sysex"}.get(pkg, pkg)
    if not info.get("ran", True):
        return h + ":panic"
    if h.startswith("gm."):
        if not info.get("well", True):
            return h + ":malformed-channel-message"
        if not info.get("accepted", True):
            return h + (":table" if h == "gm.drumkeys" else ":sequence")
        return h + ":receiver-state"
    if not info.get("f0", True):
        return h + ":missing-f0"
    if not info.get("f7", True):
        return h + ":missing-f7"
    if not info.get("all7", True):
        return pkg + ":8bit-data-byte"            # one class per package (the helpers share their byte writers)
    if not info.get("accepted", True):
        if h == "nrt.gmsystem" and rec.get("a", [0, 1])[1] == 0:
            return h + ":layout-off"
        return h + ":layout"
    if not info.get("getOk", True):
        return h + ":getsysex"
    if not info.get("parseOk", True):
        return h + ":parse-" + (rec.get("pkind") if rec.get("pkind") != "ok" else "value")
    return h + ":?"


def describe(rec, info):
    hx = " ".join("%02X" % b for b in rec["bytes"][:40]) + (" .." if len(rec["bytes"]) > 40 else "")
    arg = "a=%s" % rec["a"]
    if rec["data"]:
        arg += " data[%d]=%s" % (len(rec["data"]), " ".join("%02X" % b for b in rec["data"][:24]))
    res = "bytes[%d]=%s" % (len(rec["bytes"]), hx)
    if rec["msgs"]:
        res = "msgs=" + " | ".join(" ".join("%02X" % b for b in m) for m in rec["msgs"])
    if rec["h"] == "midi.sysex":
        res += " GetSysEx=%s,%d bytes" % (rec["gok"], len(rec["gdata"]))
    if rec["h"] == "mmc.identity":
        res += " Identity.Parse=%s channel=%s" % (rec["pkind"], rec["pchan"])
    return "%s id=%s %s -> %s %s %s %s" % (rec["h"], rec["id"], arg, rec["kind"], rec["msg"][:120], res, json.dumps(info)[:600])


def _slim(rec):
    """replay payload: inputs only (outputs are recomputed)"""
    return {"id": rec["id"], "h": rec["h"], "a": rec["a"], "data": rec["data"], "feat": rec.get("feat", [])}


def _validate(ctx, recs):
    bad = ctx.validate(TRACE, recs)
    fails = []
    for idx, info in bad:
        r = recs[idx]
        if info and info.get("genbug"):
            raise Machinery("generator problem (not a violation): %s" % json.dumps(info)[:600])
        fails.append(Failure(signature(r, info), describe(r, info), {"family": "usysex", "record": _slim(r)}))
        # results are read after all calls: the calls made after this one are part of the experiment
        fails[-1].before = [_slim(x) for x in recs[max(0, idx - 32):idx]] + [_slim(x) for x in recs[idx + 1:idx + 65]]
    # smallest input first, arguments inside the range before others: the reported instance of a class is the plainest one
    # (the boundary tables are the same for every seed: the same instance is reported whatever the seed)
    fails.sort(key=lambda f: (sum(1 for x in f.payload["record"]["a"] if x > 127), "boundary" not in f.payload["record"]["feat"],
                              len(json.dumps(f.payload)), f.payload["record"]["id"]))
    return fails


def _observe(recs):
    """what the real code does where the specification is deliberately permissive (reported, never judged)"""
    obs = {}

    def put(k, r):
        o = obs.setdefault(k, {"count": 0, "example": None})
        o["count"] += 1
        if o["example"] is None:
            o["example"] = {"a": r["a"], "data": r["data"][:12], "bytes": r["bytes"][:16], "gok": r["gok"]}
    for r in recs:
        h, a, b = r["h"], r["a"], r["bytes"]
        if r["kind"] != "ok":
            continue
        if h == "mmc.message":
            if a[0] == 0 and len(b) > 2:
                put("mmc.message device 0 -> device byte %02X" % b[2], r)
            if a[2] == 1 and len(b) > 3:
                put("mmc.message IsResponse=true -> sub-id1 %02X" % b[3], r)
            if r["data"] and a[1] <= 127:
                put("mmc.message Data set -> %s" % ("dropped" if len(b) == 6 else "len %d" % len(b)), r)
            if a[2] == 0 and 64 <= a[1] <= 127 and not r["data"]:
                put("mmc.message command >= 40h without data -> len %d" % len(b), r)
        if h == "mmc.goto" and a[0] == 0 and len(b) > 2:
            put("mmc.goto device 0 -> device byte %02X" % b[2], r)
        if h == "nrt.identityreply" and a[1] == 0 and all(x <= 127 for x in a):
            put("identityreply manufacturer id 00 (extended) -> single byte 00", r)
        if h == "midi.sysex":
            if not r["data"]:
                put("midi.SysEx(empty) -> %s GetSysEx=%s" % (b, r["gok"]), r)
            elif any(x > 127 for x in r["data"]):
                put("midi.SysEx(payload with 8-bit bytes) -> passed through=%s GetSysEx=%s" % (b[1:-1] == r["data"], r["gok"]), r)
    return obs


def run(ctx):
    q = ctx.quick
    ctx.cov["rule"] = (
        "X04 (extension, stated in spec/UniversalSysex.tla): P0 every universal sysex helper returns F0, data bytes 0..127 only, F7 for EVERY argument "
        "value (byte parameters 0..255, volume 0..65535); P1 for arguments in range the message is exactly F0 7F|7E <device> <sub-id1> <sub-id2> <data> F7 with the "
        "sub-ids of the MIDI 1.0 universal sysex tables (master volume 04 01 + 14 bit LSB first; GM on 09 01 / off 09 02; identity request 06 01 / reply 06 02 + id, "
        "family, model, version; MMC command 06 <cmd>; MMC locate 06 44 06 01 hr mn sc fr ff); P2 midi.SysEx(data) = F0 data F7 and GetSysEx returns data; "
        "P3 mmc.Identity.Parse reads the channel back, mmc.GoTo.Parse the device and the time code; every result is read only after ALL calls of the run (an earlier result survives later calls); P4 gm.Reset / gm.GMProgram emit the documented sequence on the channel, every message well formed, a GM "
        "receiver ends in the GM default state; P5 gm.DrumKey.Key() is the GM percussion map.  Inputs: boundary products over "
        "{0,1,2,63,64,126,127,128,129,200,254,255} per byte argument, all 256 channels for the one-argument helpers, every MMC command byte, seeded random calls "
        "(1 in 4 byte arguments outside 0..127).  distinct key = (helper, arguments, payload)")
    ctx.cov["checker_cmd"] = ("tlc MC_UniversalSysex (TypeOK DomainExact CanonAccepted AcceptSound StdClass Recover Payload GmWell GmReaches) ; "
                              "vh_usysex usysex-gen ; tlc Trace_UniversalSysex (UxAccept / GmAccept / GmRun / GmPercAccept on the recorded bytes)")
    ctx.cov["trusted_base"] = ["TLC", "spec/UniversalSysex.tla as the reading of the universal sysex tables, MMC RP-013 locate, RP-015 reset all controllers and the GM1 percussion map",
                               "harness recording (argument -> Go parameter mapping of vh_usysex; the list of DrumKey identifiers)"]
    ctx.assumptions += [
        "domain of the exact layout: device/channel and data arguments 0..127, volume 0..16383, MMC device 1..127 and plain commands 01..3F, identity reply with a one byte manufacturer id 01..7F, "
        "midi.SysEx payload of 1.. data bytes; gm channel 0..15 and program 0..127",
        "outside the domain only framing / 7-bit cleanliness and the argument-independent bytes are demanded (which 7-bit byte replaces an out-of-range argument is left open)",
        "left open on purpose (observations): MMC device id 0 (0 or 7F accepted), mmc.Message with IsResponse / Data / command >= 40h (only header + framing), identity reply manufacturer id 00, "
        "midi.SysEx with an empty payload or 8-bit bytes in the payload (only F0 .. F7)",
        "the package offers no helper for MTC full message, MIDI show control, notation, sample dump, tuning, file dump: nothing to check there",
    ]
    ctx.model_check("MC_UniversalSysex", "MC_UniversalSysex.cfg" if q else "MC_UniversalSysex_thorough.cfg", timeout=900)
    seeds = [ctx.seed] if q else [ctx.seed * 1000 + i for i in range(4)]
    recs = []
    for s in seeds:
        part = _gen(ctx, s, 250 if q else 4000, not q)
        if recs:   # the boundary tables are the same for every seed
            part = [r for r in part if "boundary" not in r["feat"]]
        recs += part
    for i, r in enumerate(recs):
        r["id"] = i
    per = {}
    feats = {}
    for r in recs:
        per[r["h"]] = per.get(r["h"], 0) + 1
        for f in r["feat"]:
            feats[f] = feats.get(f, 0) + 1
    ctx.cov["records_per_helper"] = per
    ctx.cov["features"] = feats
    ctx.cov["observations"] = _observe(recs)
    ctx.log("generated %d records: %s" % (len(recs), per))
    need = {"rt.generic", "rt.mastervolume", "nrt.generic", "nrt.gmsystem", "nrt.identityrequest", "nrt.identityreply", "mmc.message", "mmc.goto",
            "mmc.identity", "midi.sysex", "gm.reset", "gm.gmprogram", "gm.drumkeys"}
    if set(per) != need or not feats.get("out_of_range") or not feats.get("in_range"):
        raise Machinery("generator does not cover every helper / both ranges: %s %s" % (per, feats))
    fails = _validate(ctx, recs)
    ctx.count(len(recs), [(r["h"], tuple(r["a"]), bytes(r["data"])) for r in recs],
              [{"h": r["h"], "a": r["a"], "bytes": r["bytes"][:20], "msgs": r["msgs"][:3]} for r in
               [x for x in recs if x["h"] == "rt.mastervolume"][40:41] + [x for x in recs if x["h"] == "nrt.identityreply"][-1:] +
               [x for x in recs if x["h"] == "mmc.goto"][-1:] + [x for x in recs if x["h"] == "gm.reset"][-1:]])

    def confirm(f):
        ok, new, info = _rerun(ctx, f.payload["record"])
        return ok
    confirm.in_context = lambda hist, f: _rerun(ctx, f.payload["record"], hist)[0]
    ctx.report(fails, confirm, max_report=12)


def replay(ctx, payload):
    rec = payload["payload"]["record"]
    ok, new, info = _rerun(ctx, rec, payload["payload"].get("context") or ())
    print(json.dumps({"bytes": new["bytes"][:64], "msgs": new["msgs"], "info": info})[:3000])
    return ok
