"""C08 -- message classification is total, unambiguous and consistent with the accessors."""
import json
import os
from vlib.engine import Failure, Machinery
from props import c07


def run(ctx):
    q = ctx.quick
    ctx.cov["rule"] = ("X: byte strings of length 0..3 (quick: all first and second bytes, third byte all 256 for 40 boundary second bytes and boundary third bytes for every "
                       "second byte: 10.6 M strings; thorough: all 16 843 009) at both levels (midi.Message, smf.Message): Type, Is(5 categories + meta), IsOneOf, IsPlayable, "
                       "String and every Get* accessor under recover; the three invariants evaluated on the library's own answers plus the category table TLC exported. "
                       "T: the same observations for sampled short strings and for 4..64-byte random / sysex-shaped / meta-shaped strings judged by TLC (ClassOk). "
                       "distinct by content; non-trivial = first byte is a status byte")
    ctx.cov["checker_cmd"] = "tlc MC_MidiMessage ; tlc Export_MidiTables -> vh_msg cls-sweep ; tlc Trace_Msg"
    ctx.cov["trusted_base"] = ["TLC", "spec/MidiMessage.tla ClassOk / AllowedCats / AccType", "Go mirror clsOk of ClassOk, re-validated by TLC on >= 10^4 sampled observations per run"]
    ctx.assumptions += ["GetMetaMeter and GetMetaKey are views of the TimeSig / KeySig accessors (same type); GetNoteStart/GetNoteEnd/GetChannel are derived views",
                        "undefined status bytes F4 F5 FD may be reported as unknown or under their range's category",
                        "declared text lengths in sampled long strings are kept below 16 KiB (an accessor allocating the declared length is a memory question, not C08)"]
    ctx.model_check("MC_MidiMessage")
    tp = c07.tables(ctx)
    vh = ctx.build("./cmd/vh_msg")
    d = ctx.sub("cls")
    out, samples = os.path.join(d, "res.json"), os.path.join(d, "samples.ndjson")
    ctx.run([vh, "cls-sweep", "-tables", tp, "-out", out, "-samples", samples, "-nsamples", str(20000 if q else 300000), "-seed", str(ctx.seed)]
            + ([] if q else ["-full"]), timeout=3600)
    res = json.load(open(out))
    recs = [json.loads(x) for x in open(samples)]
    bad = ctx.validate("Trace_Msg", recs)
    ctx.log("cls sweep: %d strings, %d flagged by the sweep; %d observations to TLC, %d rejected" % (res["strings"], res["bad"], len(recs), len(bad)))
    if res["bad"] and not bad:
        raise Machinery("sweep flagged %d strings but TLC accepts all sampled observations: mirror of ClassOk is wrong" % res["bad"])
    ctx.cov["sweep"] = {"strings": res["strings"], "full_domain": res["full"]}
    if res["full"]:
        ctx.cov["exhaustive"] = True
    ctx.count(res["strings"], [(r["lvl"], bytes(r["bytes"])) for r in recs if r["bytes"] and r["bytes"][0] >= 128],
              [{"lvl": r["lvl"], "bytes": r["bytes"][:12], "type": r["type"], "cats": [k for k, v in r["cats"].items() if v], "accs": r["accs"]} for r in recs[:2] + recs[-2:]])
    fails = []
    for idx, info in bad:
        r = recs[idx]
        fails.append(Failure("cls:%s:%s" % (r["lvl"], "panic" if r["panic"] else r["type"]),
                             "%s message %s: type %s, categories %s, accepting accessors %s, panic %r" % (r["lvl"], r["bytes"][:16], r["type"], [k for k, v in r["cats"].items() if v], r["accs"], r["panic"]),
                             {"family": "msg", "record": {"ev": "cls", "lvl": r["lvl"], "bytes": r["bytes"]}}))
    ctx.report(fails, lambda f: c07.confirm(ctx, f))


replay = c07.replay
