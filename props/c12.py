"""C12 -- playback sends every playable event once, in file order, never early (TracksReader.Play / MultiPlay).

Model: spec/Player.tla checked by TLC through spec/MC_Player.tla (atomic Skip/Send actions + ghost acceptor, and the
acceptor itself as next-state relation).  Binding T with inference: recorded plays of the real library
(harness/cmd/vh_player) are explained -- or not -- by TLC's search in spec/Trace_Player.tla.
"""
import json
import os
import threading
import concurrent.futures as cf
from collections import Counter
from vlib.engine import Failure, Machinery

PKG = "./cmd/vh_player"
QUICK_MC = [("MC_Player", s) for s in ("", "_sel", "_deep")] + [("MC_PlayerJudge", s) for s in ("", "_sel", "_deep")]
THOROUGH_MC = QUICK_MC + [("MC_Player", s) for s in ("_sx", "_t3")] + [("MC_PlayerJudge", s) for s in ("_sx", "_t2", "_t3")]


def slim(rec):
    """what TLC needs of a record (the file bytes and feature tags stay in the payload only)"""
    return {k: v for k, v in rec.items() if k not in ("file", "feat", "dur_us") and (k != "claims" or rec.get("big"))}


def gen(ctx, n, seed, par, long=0):
    vh = ctx.build(PKG)
    out = os.path.join(ctx.sub("playgen"), "plays.ndjson")
    ctx.run([vh, "player-gen", "-n", str(n), "-seed", str(seed), "-par", str(par), "-long", str(long), "-out", out], timeout=1800)
    return [json.loads(x) for x in open(out)]


def gen_huge(ctx, n, seed):
    vh = ctx.build(PKG)
    out = os.path.join(ctx.sub("playhuge"), "huge.ndjson")
    ctx.run([vh, "player-gen", "-huge", str(n), "-seed", str(seed), "-out", out], timeout=600)
    return [json.loads(x) for x in open(out)]


def judge_big(ctx, recs):
    """large plays of files with distinguishable events: the attributed judgement (spec/Trace_PlayerBig.tla)"""
    bad = ctx.validate("Trace_PlayerBig", [slim(r) for r in recs], shards=1, timeout=1500)
    for idx, info in bad:
        if info.get("genbug"):
            raise Machinery("large play outside the property's domain: %s" % json.dumps(info)[:600])
    return bad


def rerun_big(ctx, rec):
    vh = ctx.build(PKG)
    d = ctx.sub("replaybig")
    i, o = os.path.join(d, "in.ndjson"), os.path.join(d, "out.ndjson")
    inp = {k: rec[k] for k in ("ev", "id", "mode", "file", "sel", "ports", "prior", "big", "feat")}
    inp.update(tracks=[], sends=[], claims=[], rerr="", err="", panic="", timeout=False, dur_us=0)
    with open(i, "w") as fh:
        fh.write(json.dumps(inp) + "\n")
    ctx.run([vh, "player-rerun", "-in", i, "-out", o], timeout=600)
    new = json.loads(open(o).read().splitlines()[-1])
    bad = judge_big(ctx, [new])
    return bool(bad), new, (bad[0][1] if bad else None)


def rerun(ctx, rec, before=()):
    vh = ctx.build(PKG)
    d = ctx.sub("replay")
    i, o = os.path.join(d, "in.ndjson"), os.path.join(d, "out.ndjson")
    def _inp(rec):
        inp = {k: rec[k] for k in ("ev", "id", "mode", "file", "sel", "ports")}
        inp["prior"] = rec.get("prior", [])
        inp.update(tracks=[], sends=[], rerr="", err="", panic="", timeout=False, dur_us=0, feat=rec.get("feat", []))
        return inp
    with open(i, "w") as fh:       # the cases `before` are executed first, in the same fresh process
        for b in list(before) + [rec]:
            fh.write(json.dumps(_inp(b)) + "\n")
    ctx.run([vh, "player-rerun", "-in", i, "-out", o], timeout=1800)
    new = json.loads(open(o).read().splitlines()[-1])
    bad = ctx.validate("Trace_Player", [slim(new)], shards=1)
    info = bad[0][1] if bad else None
    if info and info.get("genbug"):
        raise Machinery("play outside the property's domain (reader error / scheduled times not monotone in a track): %s" % info)
    return bool(bad), new, info


def signature(rec, info):
    if info.get("panic"):
        return "play:panic:" + info["panic"][:100]
    if info.get("timeout"):
        return "play:timeout"
    if info["explained"] < info["nsends"]:
        return "play:unexplained-send"        # order / port / early / meta / duplicate: no track's head explains the send
    return "play:incomplete"                  # every send explained, but playable events never left


def describe(rec, info):
    s = "play id=%s mode=%s tracks=%d sel=%s ports=%s: " % (rec["id"], rec["mode"], len(rec["tracks"]), rec["sel"], rec["ports"])
    if info["explained"] < info["nsends"]:
        s += "send #%d of %d %s cannot be produced by any track's head (longest explainable prefix: %d sends)" % (
            info["explained"] + 1, info["nsends"], json.dumps(info["stuck"]), info["explained"])
    else:
        s += "all %d sends explained but playable events remain unsent" % info["nsends"]
    if info.get("panic") or info.get("timeout") or info.get("err"):
        s += " panic=%r timeout=%s err=%r" % (info.get("panic"), info.get("timeout"), info.get("err"))
    return s


def validate(ctx, recs):
    bad = ctx.validate("Trace_Player", [slim(r) for r in recs], timeout=1500)
    fails = []
    for idx, info in bad:
        r = recs[idx]
        if info.get("genbug"):
            raise Machinery("generator produced a play outside the property's domain: %s" % json.dumps(info)[:600])
        fails.append(Failure(signature(r, info), describe(r, info), {"family": "player", "record": {k: r[k] for k in ("ev", "id", "mode", "file", "sel", "ports", "prior", "feat")}}))
        fails[-1].before = [{k: x[k] for k in ("ev", "id", "mode", "file", "sel", "ports", "prior", "feat")} for x in recs[max(0, idx - 400):idx]]
    fails.sort(key=lambda f: len(f.payload["record"]["file"]))
    return fails


def run(ctx):
    q = ctx.quick
    ctx.cov["rule"] = ("multi-track SMF files built through the public API (1-6 tracks, 0-45 events per track, >=13 events on one tick, one-tick / heavy-tick / "
                       "interleaved / random tick patterns, meta and sysex mixed in, tempo changes, identical channel messages across and inside tracks, twin tracks starting with the same run of messages), read with "
                       "ReadTracksFrom(selection...), played with MultiPlay / Play to recording drivers.Out fakes; selections: all, subsets, single, out of range, repeated; "
                       "port maps: own, shared, default only, default+some, some without default (+foreign key), default = mapped, Play(out); one LARGE play (140 000 / 262 144 "
                       "distinguishable events in one track, 1000 per tick, two small tracks beside it) judged with the attribution its bytes determine "
                       "(Trace_PlayerBig / Player!AttrLin, which MC_Player shows equal to the text of the property). TLC searches for an attribution of "
                       "the observed sends to track heads that is a behaviour of spec/Player.tla. distinct by file+selection+map hash; non-trivial = >= 13 playable events on one tick")
    ctx.cov["checker_cmd"] = ("tlc MC_Player*.cfg (Skip/Send: stable merge, exactly once, no meta, port, never early, no deadlock, acceptor complete) ; "
                              "tlc MC_PlayerJudge*.cfg (acceptor sound; AttrAgrees) ; tlc Trace_Player (search, -workers 1, registers + POSTCONDITION) ; tlc Trace_PlayerBig")
    ctx.cov["trusted_base"] = ["TLC", "spec/Player.tla as the meaning of C12 / DESIGN C.5", "harness recording (fake drivers.Out, monotonic clock, t0 immediately before the call)",
                               "scheduled times are the library's own TracksReader.Do AbsMicroSeconds (their correctness is C11)"]
    ctx.assumptions += ["sysex / escape events (F0, F7) may be sent in place or skipped: the property is silent (the library documents them as playable)",
                        "only the lower bound on send instants is judged; lateness and ties between tracks are unconstrained",
                        "a selected track without a port (no map entry, no -1 default) is not played (documented); track numbers outside the file select nothing",
                        "ports are open fakes whose Send never fails; error returns of Play/MultiPlay are recorded, not judged"]
    # model checking (the configurations are independent: run them side by side)
    mcs = QUICK_MC if q else THOROUGH_MC
    lock, sub = threading.Lock(), ctx.sub

    def locked_sub(name):           # ctx.sub numbers directories without a lock; serialise it for our threads
        with lock:
            return sub(name)
    ctx.sub = locked_sub
    with cf.ThreadPoolExecutor(max_workers=4) as ex:
        futs = [ex.submit(ctx.model_check, "MC_Player", m + s + ".cfg", workers=4, timeout=900 if q else 2400) for m, s in mcs]
        for f in futs:
            f.result()
    # binding
    recs = []
    for s in ([ctx.seed] if q else [ctx.seed * 100 + i for i in range(6)]):
        recs += gen(ctx, 250 if q else 700, s, 6, long=1 if q else 3)
    for i, r in enumerate(recs):
        r["id"] = i
    fails = validate(ctx, recs)
    feats = Counter(f for r in recs for f in r["feat"])
    ctx.cov["features"] = dict(feats)
    ctx.cov["sends_observed"] = sum(len(r["sends"]) for r in recs)
    ctx.count(len(recs), [hash(json.dumps([r["file"], r["sel"], r["ports"], r["mode"]])) for r in recs if "tick_ge13" in r["feat"]],
              [{"tracks": len(r["tracks"]), "events": sum(len(t) for t in r["tracks"]), "sel": r["sel"], "ports": r["ports"], "mode": r["mode"],
                "sends": len(r["sends"]), "dur_us": r["dur_us"], "feat": r["feat"]} for r in recs[:2]])
    for need in ("tick_ge13", "total_ge13", "meta", "sysex", "duplicate_msg", "sel_subset", "ports_default_only", "ports_some_no_default", "pat_interleave", "mode_play", "twin_prefix"):
        if not feats.get(need):
            raise Machinery("generator did not produce feature %s" % need)

    # large plays: more events than a 16-bit (17-bit) position holds
    if True:
        big = gen_huge(ctx, 140000 if q else 262144, ctx.seed)
        for idx, info in judge_big(ctx, big):
            r = big[idx]
            fails.append(Failure("bigplay:" + info["what"], "large play (%d events in track 1, %d sends): %s" % (len(r["tracks"][0]), len(r["sends"]), json.dumps(info)[:700]),
                                 {"family": "playerbig", "record": {k: r[k] for k in ("ev", "id", "mode", "file", "sel", "ports", "prior", "big", "feat")}}))
        ctx.cov["large_plays"] = [{"events": sum(len(t) for t in r["tracks"]), "sends": len(r["sends"])} for r in big]
        ctx.cov["sends_observed"] += sum(len(r["sends"]) for r in big)

    def confirm(f):
        if f.payload["family"] == "playerbig":
            return rerun_big(ctx, f.payload["record"])[0]
        return rerun(ctx, f.payload["record"])[0]
    confirm.in_context = lambda before, f: (f.payload["family"] != "playerbig") and rerun(ctx, f.payload["record"], before)[0]
    ctx.report(fails, confirm)


def replay(ctx, payload):
    if payload["payload"].get("family") == "playerbig":
        ok, new, info = rerun_big(ctx, payload["payload"]["record"])
        print(json.dumps({"info": info})[:3000])
        return ok
    ok, new, info = rerun(ctx, payload["payload"]["record"], payload["payload"].get("context") or ())
    print(json.dumps({"info": info})[:3000])
    return ok
