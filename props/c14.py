"""C14 -- listen options filter exactly their message class and nothing else."""
from props import live


def run(ctx):
    q = ctx.quick
    ctx.cov["rule"] = ("for each session (all stream kinds of C04/C06) run under an option set with at least one option off, the same chunks are "
                       "run with all options on; TLC checks deliveries(o) = Project(o, deliveries(all on)) in content, order, chunk and time stamp; "
                       "graph walk: both real decoders stepped in lock-step over TLC's state graph; non-trivial = the all-on run delivered "
                       "at least one message of a filtered class")
    ctx.cov["checker_cmd"] = "tlc MC_LiveDecoder (FilterExact on the lock-step product) ; vh live-walk -mode twin ; tlc Trace_Live (judge=twin)"
    ctx.cov["trusted_base"] = ["TLC", "LiveDecoder!Passes as the definition of the three classes", "walker's 3-line mirror of Passes (alarms re-judged by TLC)"]
    ctx.assumptions += ["only the relation between the two real runs is judged here; what the all-on run must deliver is C04/C06",
                        "midicatdrv's copy of the filter: twin histories on the real driver against the stand-in helper pair"]
    ctx.model_check("MC_LiveDecoder")
    gp, nn, ne = live.graph(ctx, "MC_LiveG.cfg")
    res, fails = live.walk(ctx, gp, "listen", 2 if q else 3, 0 if q else 2000, "twin", mode="twin")
    ctx.count(res["sequences"])
    recs = live.gen_sessions(ctx, 1500 if q else 12000, 0, ctx.seed + 2000, "twin",
                             only=lambda r: r["lvl"] == "listen" and not (r["sysex"] and r["as"] and r["tc"]))
    fails += live.validate_sessions(ctx, recs, "C14")

    def filtered_class_present(r):
        for ch in r["twin"]:
            for m in ch:
                b = m["b"]
                if b and ((b == [254] and not r["as"]) or (b == [248] and not r["tc"]) or (b[0] == 240 and not r["sysex"])):
                    return True
        return False
    ctx.count(len(recs), [hash(str(r["chunks"])) for r in recs if filtered_class_present(r)],
              [{"cap": r["cap"], "sysex": r["sysex"], "as": r["as"], "tc": r["tc"], "chunks": r["chunks"][:3], "twin": r["twin"][:3]} for r in recs[:2]])
    # the process-backed driver has its own copy of the filter (drivers/midicatdrv/in.go)
    from props import mcat
    fails += mcat.run_filter(ctx)
    lcf = live.confirm_factory(ctx)

    def confirm(f):
        return mcat.confirm_filter(ctx, f) if f.payload.get("family") == "mcat-filter" else lcf(f)
    confirm.in_context = lcf.in_context       # (only the live sessions carry a history)
    ctx.report(fails, confirm)
    live.finish(ctx)


def replay(ctx, payload):
    if payload["payload"].get("family") == "mcat-filter":
        from props import mcat
        from vlib.engine import Failure
        return mcat.confirm_filter(ctx, Failure("", "", payload["payload"]))
    return live.replay(ctx, payload)
