"""C20 -- sequencer export lays bars end to end and places events on the 32nd-note grid."""
import json
import os
from vlib.engine import Failure, Machinery

PKG = "./cmd/vh_sequencer"


def gen(ctx, n, seed, big=False):
    vh = ctx.build(PKG)
    out = os.path.join(ctx.sub("seqgen"), "songs.ndjson")
    ctx.run([vh, "seq-gen", "-n", str(n), "-seed", str(seed), "-out", out] + (["-big"] if big else []), timeout=1800)
    return [json.loads(x) for x in open(out)]


def rerun(ctx, rec, before=()):
    vh = ctx.build(PKG)
    d = ctx.sub("replay")
    i, o = os.path.join(d, "in.ndjson"), os.path.join(d, "out.ndjson")
    with open(i, "w") as fh:       # the cases `before` are executed first, in the same fresh process
        for b in list(before) + [rec]:
            fh.write(json.dumps(b) + "\n")
    ctx.run([vh, "seq-rerun", "-in", i, "-out", o], timeout=1800)
    new = json.loads(open(o).read().splitlines()[-1])
    bad = ctx.validate("Trace_Sequencer", [new], shards=1)
    if bad and bad[0][1] and bad[0][1].get("genbug"):
        raise Machinery("song outside the property's domain (generator bug): id=%s" % rec.get("id"))
    return bool(bad), new, (bad[0][1] if bad else None)


def sigs(rec):
    return ["%d/%d" % (b["num"], b["den"]) for b in rec["bars"]]


def signature(rec, info):
    info = info or {}
    if info.get("panic"):
        return "panic:" + info["panic"][:100]
    big = any(b["num"] >= 8 for b in rec["bars"])
    if info.get("huge0") or info.get("huge1"):
        return "huge-delta:" + ("num>=8" if big else "num<8")
    c = info.get("clauses") or {}
    failed = sorted(k for k, v in c.items() if v is False)
    if info.get("div") is False:
        failed.append("div")
    return "clauses:%s:%s" % ("+".join(failed), "num>=8" if big else "num<8")


def describe(rec, info):
    nev = sum(len(b["evs"]) for b in rec["bars"])
    return "song id=%s seed=%s res=%d bars=%s events=%d first=%d -> %s" % (
        rec.get("id"), rec.get("seed"), rec["res"], " ".join(sigs(rec))[:300], nev, rec.get("first", 0), json.dumps(info)[:900])


def size(rec):
    return len(rec["bars"]) * 10 + sum(len(b["evs"]) for b in rec["bars"])


def run(ctx):
    q = ctx.quick
    ctx.cov["rule"] = ("seeded random songs over the property's whole domain (1..40 bars; every signature num 1..24 over den 1,2,4,8,16,32 whose bar is <= 255 "
                       "thirty-seconds, biased to numerators >= 8, compound meters and unchanged/implicit signatures; channel-message events at any in-bar position, "
                       "unsorted, notes with any duration ending inside the song incl. across bar lines; 1..8 tracks; resolutions 8..32760 divisible by 8) built with "
                       "sequencer.New/AddBar and exported with ToSMF0 and ToSMF1 (either order) on the real library; deltas summed to absolute ticks; TLC judges each "
                       "record with Sequencer!ExportOk.  distinct by song description; non-trivial = has a numerator >= 8, a signature change, a bar-crossing note, "
                       "several tracks or > 12 bars")
    ctx.cov["checker_cmd"] = "tlc MC_Sequencer (layout invariants, reference exporter accepted under every freedom, 3 mutant exporters rejected) ; tlc Trace_Sequencer"
    ctx.cov["trusted_base"] = ["TLC", "spec/Sequencer.tla as the meaning of the property", "harness recording (running sum of deltas)"]
    ctx.assumptions += ["events are channel messages (no sysex events); notes have duration >= 1 and velocity >= 1, other events duration 0 (as the Event type documents)",
                        "free: order of events on one tick, distribution of events over the SMF1 tracks, NoteOff vs NoteOn-velocity-0, metronome bytes of the "
                        "time signature, other meta events, format number"]
    ctx.model_check("MC_Sequencer", "MC_Sequencer_quick.cfg" if q else "MC_Sequencer.cfg", timeout=2400)
    recs = []
    if q:
        recs += gen(ctx, 900, ctx.seed)
        recs += gen(ctx, 100, ctx.seed + 1000, big=True)
    else:
        for i in range(5):
            recs += gen(ctx, 6000, ctx.seed + i)
            recs += gen(ctx, 800, ctx.seed + 1000 + i, big=True)
    bad = ctx.validate("Trace_Sequencer", recs)
    fails = []
    for idx, info in bad:
        r = recs[idx]
        if info and info.get("genbug"):
            raise Machinery("generator produced a song outside the property's domain: %s" % json.dumps(r)[:600])
        fails.append(Failure(signature(r, info), describe(r, info), {"family": "sequencer", "record": r}))
        fails[-1].before = [x for x in recs[max(0, idx - 400):idx]]
    fails.sort(key=lambda f: size(f.payload["record"]))
    nt = {"num>=8", "sigchange", "crossbar", "multitrack", "long"}
    ctx.count(len(recs), [hash(json.dumps([r["res"], r["bars"]], sort_keys=True)) for r in recs if nt & set(r["feat"])],
              [{"res": r["res"], "bars": sigs(r)[:8], "events": sum(len(b["evs"]) for b in r["bars"]),
                "smf0_events": sum(len(t) for t in r["smf0"]["tracks"]), "smf1_tracks": len(r["smf1"]["tracks"]), "feat": r["feat"]} for r in recs[:2]])
    from collections import Counter
    c = Counter()
    for r in recs:
        for f in r["feat"]:
            c[f] += 1
    ctx.cov["features"] = dict(c)
    ctx.cov["distinct_signatures"] = len({(b["num"], b["den"]) for r in recs for b in r["bars"]})

    def confirm(f):
        return rerun(ctx, f.payload["record"])[0]
    confirm.in_context = lambda before, f: rerun(ctx, f.payload["record"], before)[0]
    ctx.report(fails, confirm)


def replay(ctx, payload):
    rec = payload["payload"]["record"]
    ok, new, info = rerun(ctx, rec, payload["payload"].get("context") or ())
    print(json.dumps({"info": info})[:3000])
    return ok
