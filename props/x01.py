"""X01 (extension) -- sequencer: importing an exported song (ToSMF1 / ToSMF0 -> FromSMF) gives the song back."""
import json
import os
from collections import Counter
from vlib.engine import Failure, Machinery

PKG = "./cmd/vh_seqimport"
TRACE = "Trace_SequencerImport"

RULE = ("X01 (extension; stated in spec/SequencerImport.tla): for every song in the domain of C20 (1..40 bars of any signature whose bar fits in 255 "
        "thirty-seconds, channel-message events on the 32nd grid inside their bar, notes of duration >= 1 ending within the song, tracks 0..7, resolution "
        "divisible by 8) sequencer.FromSMF(song.ToSMF1()) and sequencer.FromSMF(song.ToSMF0()) -- directly or after smf WriteTo/ReadFrom -- yield a song with "
        "the same Ticks, the same bars in order (Number 0.., TimeSig, AbsTicks = bars laid end to end) and in every bar the same events (position, message, "
        "note duration); after ToSMF1 the partition of the events into tracks is kept.  Permissive: track numbers, track partition after ToSMF0, durations of "
        "notes of one channel+key (+track for SMF1) that overlap or touch, order of events in a bar, names/title/key/tempo.  "
        "Coverage rule: seeded random songs over the whole domain (biased to songs that keep one signature, to >= 3 signature changes, to numerators >= 8, "
        "bar-crossing notes, several tracks, repeated keys), both exports per song, 25 % through bytes; TLC judges every record with SequencerImport!ImportOk. "
        "distinct by song description; non-trivial = more than one bar or an event")


def gen(ctx, n, seed, big=False):
    vh = ctx.build(PKG)
    out = os.path.join(ctx.sub("impgen"), "songs.ndjson")
    ctx.run([vh, "imp-gen", "-n", str(n), "-seed", str(seed), "-out", out] + (["-big"] if big else []), timeout=1800)
    return [json.loads(x) for x in open(out)]


def rerun(ctx, rec):
    vh = ctx.build(PKG)
    d = ctx.sub("replay")
    i, o = os.path.join(d, "in.ndjson"), os.path.join(d, "out.ndjson")
    open(i, "w").write(json.dumps(rec) + "\n")
    ctx.run([vh, "imp-rerun", "-in", i, "-out", o], timeout=600)
    new = json.loads(open(o).read())
    bad = ctx.validate(TRACE, [new], shards=1)
    if bad and bad[0][1] and bad[0][1].get("genbug"):
        raise Machinery("song outside the property's domain (generator bug): id=%s" % rec.get("id"))
    return bool(bad), new, (bad[0][1] if bad else None)


def sigs(rec):
    return ["%d/%d" % (b["num"], b["den"]) for b in rec["bars"]]


def nchanges(rec):
    run, n = (4, 4), 0
    for b in rec["bars"]:
        s = (b["num"], b["den"])
        if s != run:
            n += 1
        run = s
    return n


def signature(rec, info):
    """class of a rejected record: which clauses failed (of either import) and the shape of the song that matters for bar recovery"""
    info = info or {}
    parts = []
    for k in ("i1", "i0"):
        x = info.get(k) or {}
        if x.get("panic"):
            return "panic:" + x["panic"][:80]
        if x.get("err"):
            return "err:" + x["err"]
    failed = set()
    for k in ("i1", "i0"):
        c = (info.get(k) or {}).get("clauses") or {}
        failed |= {n for n, v in c.items() if v is False}
        if (info.get(k) or {}).get("fmtok") is False:
            failed.add("fmt")
    ch = nchanges(rec)
    shape = "changes>=3" if ch >= 3 else "changes<3"
    parts.append("+".join(sorted(failed)))
    parts.append(shape)
    return "clauses:" + ":".join(parts)


def describe(rec, info):
    nev = sum(len(b["evs"]) for b in rec["bars"])
    return "song id=%s seed=%s res=%d via=%d bars=%s events=%d -> %s" % (
        rec.get("id"), rec.get("seed"), rec["res"], rec.get("via", 0), " ".join(sigs(rec))[:200], nev, json.dumps(info)[:1100])


def size(rec):
    return len(rec["bars"]) * 10 + sum(len(b["evs"]) for b in rec["bars"]) + 5 * nchanges(rec)


def run(ctx):
    q = ctx.quick
    ctx.cov["rule"] = RULE
    ctx.cov["checker_cmd"] = ("tlc MC_SequencerImport (reference exporter o reference importer accepted for both exports under every freedom; 4 defective importers "
                              "rejected exactly when the defect shows) ; tlc Trace_SequencerImport")
    ctx.cov["trusted_base"] = ["TLC", "spec/SequencerImport.tla (+ Sequencer.tla layout operators) as the meaning of the property",
                               "harness recording (copies the public fields of the imported song)"]
    ctx.assumptions += ["events are channel messages (no sysex events); notes have duration >= 1 and velocity >= 1, other events duration 0 (as the Event type documents)",
                        "not compared: track numbers (only the partition after ToSMF1), durations of overlapping/touching notes of one channel+key, order inside a bar, "
                        "title/composer/track names/key/tempo",
                        "each export is taken from a freshly built song (a song is not exported twice)"]
    ctx.model_check("MC_SequencerImport", "MC_SequencerImport_quick.cfg" if q else "MC_SequencerImport.cfg", timeout=2400)
    recs = []
    if q:
        recs += gen(ctx, 700, ctx.seed)
        recs += gen(ctx, 100, ctx.seed + 1000, big=True)
    else:
        for i in range(5):
            recs += gen(ctx, 10000, ctx.seed + i)
            recs += gen(ctx, 1200, ctx.seed + 1000 + i, big=True)
    bad = ctx.validate(TRACE, recs)
    fails = []
    for idx, info in bad:
        r = recs[idx]
        if info and info.get("genbug"):
            raise Machinery("generator produced a song outside the property's domain: %s" % json.dumps(r)[:600])
        fails.append(Failure(signature(r, info), describe(r, info), {"family": "seqimport", "record": r}))
    fails.sort(key=lambda f: size(f.payload["record"]))
    ctx.count(len(recs), [hash(json.dumps([r["res"], r["bars"], r["via"]], sort_keys=True)) for r in recs
                          if len(r["bars"]) > 1 or any(b["evs"] for b in r["bars"])],
              [{"res": r["res"], "via": r["via"], "bars": sigs(r)[:8], "events": sum(len(b["evs"]) for b in r["bars"]),
                "imported_bars_smf1": len(r["imp1"]["bars"]), "imported_events_smf1": sum(len(b["evs"]) for b in r["imp1"]["bars"]),
                "feat": r["feat"]} for r in recs[:2]])
    c = Counter()
    for r in recs:
        for f in r["feat"]:
            c[f] += 1
    ctx.cov["features"] = dict(c)
    ctx.cov["rejected_records"] = len(bad)

    def confirm(f):
        ok, new, info = rerun(ctx, f.payload["record"])
        return ok
    ctx.report(fails, confirm)


def replay(ctx, payload):
    rec = payload["payload"]["record"]
    ok, new, info = rerun(ctx, rec)
    print(json.dumps({"info": info})[:3000])
    return ok
