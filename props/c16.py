"""C16 -- converting a format-0 file to format 1 preserves every event and its time (SMF.ConvertToSMF1)."""
import hashlib
import json
import os
from collections import Counter
from vlib.engine import Failure, Machinery

PKG = "./cmd/vh_convert"
NONTRIVIAL = {"tick13", "other13_on_tick", "ch16", "gap", "late_eot", "dup_on_tick", "multi_add"}


def _gen(ctx, args, name):
    vh = ctx.build(PKG)
    out = os.path.join(ctx.sub("cvgen_" + name), name + ".ndjson")
    ctx.run([vh, "cv-gen", "-out", out] + [str(a) for a in args], timeout=1800)
    return [json.loads(x) for x in open(out)]


def _key(r):
    return hashlib.sha1(json.dumps([r["src"], r["div"]], separators=(",", ":")).encode()).hexdigest()[:16]


def _signature(rec, info):
    info = info or {}
    if info.get("why") == "panic":
        return "cv:panic:" + (rec.get("pan") or "")[:100]
    c = info.get("clauses") or {}
    return "cv:" + "+".join(k for k in ("div", "terminated", "nothingLost", "placement", "order") if c.get(k) is False)


def _describe(rec, info):
    def tr(t):
        return " ".join("%d:%s" % (e["hi"] * 65536 + e["lo"], "".join("%02X" % b for b in e["m"])) for e in t[:40])
    return "ConvertToSMF1 id=%s src[%d]=[%s] div=%s -> fmt=%s div=%s tracks=%s | %s" % (
        rec.get("id"), len(rec["src"]), tr(rec["src"]), rec["div"], rec["dfmt"], rec["ddiv"],
        [tr(t) for t in rec["dtracks"][:6]], json.dumps(info)[:700])


def _validate(ctx, recs):
    bad = ctx.validate("Trace_Convert", recs)
    fails = []
    for idx, info in bad:
        r = recs[idx]
        if info and info.get("genbug"):
            raise Machinery("generator produced a source outside the property's domain: %s" % json.dumps(r)[:600])
        fails.append(Failure(_signature(r, info), _describe(r, info), {"family": "convert", "record": r}))
        fails[-1].before = [x for x in recs[max(0, idx - 400):idx]]
    fails.sort(key=lambda f: len(json.dumps(f.payload)))
    return fails


def _rerun(ctx, rec, before=()):
    vh = ctx.build(PKG)
    d = ctx.sub("replay")
    i, o = os.path.join(d, "in.ndjson"), os.path.join(d, "out.ndjson")
    with open(i, "w") as fh:       # the cases `before` are executed first, in the same fresh process
        for b in list(before) + [rec]:
            fh.write(json.dumps(b) + "\n")
    ctx.run([vh, "cv-rerun", "-in", i, "-out", o], timeout=1800)
    new = json.loads(open(o).read().splitlines()[-1])
    bad = ctx.validate("Trace_Convert", [new], shards=1)
    if bad and bad[0][1] and bad[0][1].get("genbug"):
        raise Machinery("replayed source is outside the property's domain: %s" % bad[0][1])
    return bool(bad), new, (bad[0][1] if bad else None)


def run(ctx):
    q = ctx.quick
    ctx.cov["rule"] = ("single-track files built through smf.New/Track.Add (single and multi-message)/Track.Close/SMF.Add, converted by the real "
                       "ConvertToSMF1; (a) small scope exhaustive: every source of <= %d messages over 3 channels (one with two distinguishable "
                       "messages), 2 metas, a sysex, deltas {0,1}, terminator delta {0,1} or never closed -- the space of MC_Convert; (b) seeded random files (1 in 8 never closed): 0..400 "
                       "messages, 1..16 channels, channel/meta/sysex/escape mixes from none to all, runs of >= 13 messages on one tick (also >= 13 "
                       "non-channel ones, the only sorted track), gaps to 10^6 ticks, terminator delta 0..10^6, 8 time divisions. TLC judges every record "
                       "with Convert!ConvertOk. distinct = source hash; non-trivial = has one of %s" % (3 if q else 5, sorted(NONTRIVIAL)))
    ctx.cov["checker_cmd"] = "tlc MC_Convert (Satisfiable, Sensitive, ASSUME NonVacuous) ; tlc Trace_Convert"
    ctx.cov["trusted_base"] = ["TLC", "spec/Convert.tla ConvertOk as the meaning of the property text", "harness recording (vh_convert: deltas as 16-bit halves)"]
    ctx.assumptions += ["domain: the source is a format-0 file with exactly one properly terminated track built through the public API; well-formed "
                        "channel/meta/sysex/escape messages; the sum of all deltas stays below 2^30 (TLC integers are 32 bit; a delta between two "
                        "messages of one channel that does not fit uint32 is not representable in any format-1 track and is out of scope)",
                        "left free: order of the channel tracks, position of each resulting track's terminator, tracks without messages"]
    if q:
        ctx.model_check("MC_Convert", "MC_Convert.cfg", timeout=600)
    else:
        ctx.model_check("MC_Convert", "MC_Convert_thorough.cfg", timeout=3000)
        ctx.model_check("MC_Convert", "MC_Convert_six.cfg", timeout=3000)
    fails = []
    feats = Counter()
    total = 0
    samples = []

    def take(recs):
        nonlocal total, fails
        total += len(recs)
        for r in recs:
            for f in r["feat"]:
                feats[f] += 1
        ctx.count(len(recs), [_key(r) for r in recs if NONTRIVIAL & set(r["feat"])], [])
        fails += _validate(ctx, recs)

    # (a) small scope, exhaustive
    if q:
        take(_gen(ctx, ["-mode", "small", "-max", 3], "small"))
    else:
        parts = 8
        for p in range(parts):
            take(_gen(ctx, ["-mode", "small", "-max", 5, "-part", p, "-parts", parts], "small%d" % p))
    # (b) seeded random
    seeds = [ctx.seed] if q else [ctx.seed + i for i in range(6)]
    for s in seeds:
        recs = _gen(ctx, ["-mode", "rand", "-n", 400 if q else 1500, "-seed", s], "rand%d" % s)
        if not samples:
            samples = [{"nsrc": len(r["src"]), "ntracks": len(r["dtracks"]), "feat": r["feat"], "src_head": r["src"][:4]} for r in recs[:2]]
        take(recs)
    for need in ("tick13", "other13_on_tick", "ch16", "gap", "late_eot", "dup_on_tick", "no_other", "no_chan", "unclosed"):
        if not feats[need]:
            raise Machinery("generator never produced feature %s" % need)
    ctx.count(0, [], samples)
    ctx.cov["features"] = dict(feats)
    ctx.log("records=%d features=%s" % (total, dict(feats)))

    def confirm(f):
        return _rerun(ctx, f.payload["record"])[0]
    confirm.in_context = lambda before, f: _rerun(ctx, f.payload["record"], before)[0]
    ctx.report(fails, confirm)


def replay(ctx, payload):
    ok, new, info = _rerun(ctx, payload["payload"]["record"], payload["payload"].get("context") or ())
    print(json.dumps({"info": info})[:3000])
    return ok
