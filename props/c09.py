"""C09 -- SMF reading does not depend on how the source delivers its bytes."""
from props import smf


def run(ctx):
    q = ctx.quick
    ctx.cov["rule"] = ("valid files (byte-level generated and library-written) and truncated ones; baseline = ReadFrom(bytes.Reader); then iotest.OneByteReader, "
                       "HalfReader, DataErrReader (last bytes together with EOF), DataErr+OneByte, alternating 1/n-byte reads, fixed 3-byte reads, 4 seeded random "
                       "fragment patterns and EVERY single split point (strided above 1200 bytes); result must equal the baseline (same value, or both fail). "
                       "distinct by content; non-trivial = file longer than 30 bytes")
    ctx.cov["checker_cmd"] = "tlc MC_SmfGen (Decode is a function of the bytes alone: the specification has no notion of fragments) ; tlc Trace_Smf (ev=sched)"
    ctx.cov["trusted_base"] = ["TLC", "harness readers (at least one byte or an error per call) and the structural equality of two results of the library"]
    ctx.assumptions += ["only the relation between the schedules and the in-memory baseline is judged; what the baseline must be is C02/C05"]
    ctx.model_check("MC_SmfGen", "MC_SmfGen_quick.cfg")
    recs = []
    seeds = [ctx.seed] if q else [ctx.seed + i for i in range(4)]
    for s in seeds:
        recs += smf.gen(ctx, "sched", 150 if q else 1200, s + 400, "c09", big=True)
    fails = smf.validate(ctx, recs)
    nruns = sum(int(r["runs"][-1]["sched"].split(":")[1]) + len(r["runs"]) - 1 for r in recs)
    ctx.count(nruns, [hash(bytes(r["bytes"])) + r["cut"] for r in recs if len(r["bytes"]) > 30],
              [{"len": len(r["bytes"]), "cut": r["cut"], "base": r["base"]["kind"], "runs": [[x["sched"], x["same"]] for x in r["runs"]]} for r in recs[:2]])
    ctx.cov["traces_validated_against_impl"] = nruns
    ctx.report(fails, smf.confirm_factory(ctx))


replay = smf.replay
