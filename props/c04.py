"""C04 -- live MIDI byte streams are decoded into exactly the messages sent."""
from props import live


def run(ctx):
    q = ctx.quick
    ctx.cov["rule"] = ("sessions = well-formed message sequences serialised by a conforming sender (running-status elision, real-time bytes "
                       "at arbitrary positions incl. inside messages and sysex, sysex lengths around the buffer size, arbitrary chunking and time "
                       "deltas) on the real decoder at listener and driver level; distinct by content; non-trivial = uses elision, an inner real-time "
                       "byte or a sysex at/over the buffer size")
    ctx.cov["checker_cmd"] = "tlc MC_LiveWire (Delivered, RealTimeImmediate) ; tlc -dump dot MC_LiveG -> vh live-walk ; tlc Trace_Live"
    ctx.cov["trusted_base"] = ["TLC", "spec/LiveDecoder.tla + MC_LiveWire.tla (sender model)", "Go harness recording"]
    ctx.assumptions += ["time stamp = accumulated delta of the chunk that completed the message; sysex: any value in [first byte, last byte]",
                        "0xFD may be surfaced or skipped"]
    ctx.model_check("MC_LiveWire", "MC_LiveWire_quick.cfg" if q else "MC_LiveWire.cfg")
    gp, nn, ne = live.graph(ctx, "MC_LiveG.cfg")
    fails = []
    res, f = live.walk(ctx, gp, "listen", 2 if q else 3, 0 if q else 2000, "model")
    fails += f
    fails += live.closure(ctx, gp)      # driver level: streams of every length over the alphabet
    ctx.count(res["sequences"])
    recs = live.gen_sessions(ctx, 1500 if q else 15000, 0, ctx.seed + 1000, "model",
                             only=lambda r: "wire" in r["feat"] and "garbage_prefix" not in r["feat"])
    fails += live.validate_sessions(ctx, recs, "C04")
    nt = {"elision", "rt_inside", "sysex_over", "sysex_at_cap"}
    ctx.count(len(recs), [hash(str(r["chunks"])) for r in recs if nt & set(r["feat"])],
              [{"lvl": r["lvl"], "cap": r["cap"], "chunks": r["chunks"][:4], "feat": r["feat"]} for r in recs[:3]])
    ctx.report(fails, live.confirm_factory(ctx))
    live.finish(ctx)


replay = live.replay
