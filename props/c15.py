"""C15 -- meta-event constructors and accessors are mutually inverse (binding T, exhaustive parts judged by TLC too)."""
import json
import os
from collections import Counter
from vlib.engine import Failure, Machinery

PKG = "./cmd/vh_meta"


def _gen(ctx, seed):
    vh = ctx.build(PKG)
    out = os.path.join(ctx.sub("metagen"), "calls.ndjson")
    ctx.run([vh, "meta-gen", "-seed", str(seed), "-tier", ctx.tier, "-out", out], timeout=3600)
    return [json.loads(x) for x in open(out)]


def _rerun(ctx, rec, before=()):
    """re-executes the INPUTS of one record alone on the real code and lets TLC judge the new record"""
    vh = ctx.build(PKG)
    d = ctx.sub("replay")
    i, o = os.path.join(d, "in.ndjson"), os.path.join(d, "out.ndjson")
    with open(i, "w") as fh:       # the cases `before` are executed first, in the same fresh process
        for b in list(before) + [rec]:
            fh.write(json.dumps(b) + "\n")
    ctx.run([vh, "meta-rerun", "-in", i, "-out", o], timeout=1800)
    new = json.loads(open(o).read().splitlines()[-1])
    bad = ctx.validate("Trace_Meta", [new], shards=1)
    if bad and bad[0][1] and bad[0][1].get("genbug"):
        raise Machinery("record outside the property's domain: %s" % json.dumps(bad[0][1])[:600])
    return bool(bad), new, (bad[0][1] if bad else None)


def _signature(rec, info):
    info = info or {}
    if rec["ev"] == "seqsweep":
        return "seqsweep:" + ("panic" if info.get("panic") else "foreign" if info.get("foreign") else "value")
    ctor = rec["ctor"]
    if info.get("panic"):
        return "call:%s:panic:%s" % (ctor, info["panic"].split(" @ ")[0][:80])
    if not info.get("bytesOk") or not info.get("wellFormed"):
        return "call:%s:bytes" % ctor
    if not info.get("accOk"):
        n = info.get("datalen", 0)
        cls = "" if ctor not in TEXTY else (":len>=128" if n >= 128 else ":len<128")
        return "call:%s:accessor%s" % (ctor, cls)
    return "call:%s:foreign:%s" % (ctor, ",".join(sorted(info.get("foreign") or [])))


TEXTY = {"text", "copyright", "trackname", "instrument", "lyric", "marker", "cuepoint", "program", "device", "seqdata", "undefined"}


def _describe(rec, info):
    if rec["ev"] == "seqsweep":
        return "sequence-number sweep from %d: %s" % (rec["from"], json.dumps(info)[:600])
    args = {"a": rec["a"], "name": rec["name"], "major": rec["major"], "flat": rec["flat"], "bpm": rec["bpm"]["dec"], "datalen": len(rec["data"])}
    acc = {k: (v if k not in TEXTY else {"ok": v["ok"], "len": len(v["s"]), "head": v["s"][:8]}) for k, v in rec["acc"].items() if v["ok"]}
    return "ctor=%s args=%s bytes[%d]=%s accepted_by=%s verdict=%s" % (
        rec["ctor"], json.dumps(args), len(rec["bytes"]), " ".join("%02X" % b for b in rec["bytes"][:16]),
        json.dumps(acc)[:500], json.dumps({k: info.get(k) for k in ("bytesOk", "wellFormed", "accOk", "foreign", "panic", "retlen", "expectHead")}))


def _payload_record(rec, info):
    if rec["ev"] == "seqsweep" and info and info.get("firstBad", -1) >= 0:
        # shrink the block to the first offending number
        return {"ev": "seqsweep", "id": rec["id"], "from": info["firstBad"], "bytes": [[]], "oks": [False], "outs": [0], "foreign": [], "panic": ""}
    return rec


def run(ctx):
    q = ctx.quick
    ctx.cov["rule"] = ("every meta constructor of v2/smf (9 text kinds, MetaSequencerData, MetaChannel, MetaPort, MetaSequenceNo, MetaSMPTE, MetaTimeSig, MetaMeter, "
                       "MetaKey, the 26 named key constructors via a name->func registry, MetaTempo, MetaUndefined, EOT) called on the real library with "
                       "boundary-heavy seeded arguments: text/seqdata lengths {0,1,2,126,127,128,129,255,256,16383,16384,16385,20000}+random with bytes >= 0x80, "
                       "all 256 channels/ports, all 65536 sequence numbers (blocks), SMPTE boundaries, every numerator x power-of-two denominator, "
                       "all (tonic argument 0..11, accidentals 0..7, flat, major) tuples (TLC selects the tonic the circle of fifths gives), tempi as exact "
                       "dyadic rationals from 6e7/(2^24-1) to 6e7 BPM incl. every rounding boundary of boundary fields; each record holds the bytes and the answer "
                       "of EVERY GetMeta* accessor; TLC demands bytes = Meta!Enc*(args), matching accessors return the arguments, all others reject, no panic. "
                       "distinct by (ctor, args, payload hash); non-trivial = payload >= 128 bytes, or a numeric argument >= 128, or any tempo/key")
    ctx.cov["checker_cmd"] = "tlc MC_Meta (inverse laws, key table vs circle of fifths, BigNat vs native ints) ; tlc Trace_Meta (ev=call, ev=seqsweep)"
    ctx.cov["trusted_base"] = ["TLC", "spec/Meta.tla (SMF 1.0 meta events, circle of fifths, 26 key names from music theory)",
                               "harness recording; math.Frexp decomposition of float64 into mantissa limbs * 2^exp (and Ldexp back on replay)"]
    ctx.assumptions += ["tempo domain: 1 <= 6e7/bpm <= 2^24-1 exactly (3.5763 .. 60,000,000 BPM); slower/faster tempi are outside the property and not generated",
                        "a tempo field is accepted if it is the floor or the ceiling of 6e7/bpm (within the field's resolution); the returned bpm must satisfy |6e7/bpm - field| < 1/2",
                        "MetaKey with a tonic argument that is not the circle-of-fifths tonic of (n, flat, major) is not a key: unjudged; with 0 accidentals the flat flag is free",
                        "MetaMeter: the two clock bytes of the event are not fixed by the property (any value accepted); MetaTimeSig clock arguments are non-zero",
                        "MetaUndefined: type byte 0..127; accessors may accept when the type is an assigned one; Key.String() and float formatting are not judged"]
    ctx.model_check("MC_Meta", timeout=600)
    recs = []
    for s in ([ctx.seed] if q else [ctx.seed, ctx.seed + 1000]):
        recs += _gen(ctx, s)
    # spread the long records over the shards
    order = sorted(range(len(recs)), key=lambda i: (i % 16, i))
    recs = [recs[i] for i in order]
    bad = ctx.validate("Trace_Meta", recs, timeout=3000)
    fails = []
    for idx, info in bad:
        r = recs[idx]
        if info and info.get("genbug"):
            raise Machinery("generator produced a call outside the property's domain: ctor=%s a=%s name=%s bpm=%s datalen=%d" %
                            (r.get("ctor"), r.get("a"), r.get("name"), (r.get("bpm") or {}).get("dec"), len(r.get("data") or [])))
        fails.append(Failure(_signature(r, info), _describe(r, info), {"family": "meta", "record": _payload_record(r, info)}))
        fails[-1].before = [x for x in recs[max(0, idx - 400):idx]]
    fails.sort(key=lambda f: len(json.dumps(f.payload)))
    calls = [r for r in recs if r["ev"] == "call"]
    nsweep = sum(len(r["bytes"]) for r in recs if r["ev"] == "seqsweep")
    per = Counter(r["ctor"] for r in calls)
    per["seqsweep_numbers"] = nsweep
    ctx.cov["calls_per_constructor"] = dict(per)
    ctx.cov["long_payloads_ge128"] = sum(1 for r in calls if len(r["data"]) >= 128)
    ctx.cov["long_payloads_ge16384"] = sum(1 for r in calls if len(r["data"]) >= 16384)
    ctx.cov["key_tuples"] = len({(r["a"][1], r["flat"], r["major"]) for r in calls if r["ctor"] == "key"})
    ctx.cov["named_keys"] = len({r["name"] for r in calls if r["ctor"] == "named"})
    if ctx.cov["key_tuples"] != 32 or ctx.cov["named_keys"] != 26 or nsweep % 65536 != 0 or nsweep == 0:
        raise Machinery("exhaustive parts incomplete: %s key tuples, %s named keys, %s swept numbers" % (ctx.cov["key_tuples"], ctx.cov["named_keys"], nsweep))
    if q is False:
        ctx.cov["exhaustive"] = "sequence numbers 0..65535; (n, flat, major) x 12 tonic arguments; 26 named keys; 256 channels; 256 ports; 256 numerators x 8 denominators"

    def key(r):
        return (r["ctor"], tuple(r["a"]), r["name"], r["major"], r["flat"], r["bpm"]["dec"], hash(bytes(r["data"])))
    nontrivial = [key(r) for r in calls if len(r["data"]) >= 128 or any(x >= 128 for x in r["a"]) or r["ctor"] in ("tempo", "key", "named")]
    ctx.count(len(calls) + nsweep, nontrivial,
              [{"ctor": r["ctor"], "a": r["a"], "name": r["name"], "bpm": r["bpm"]["dec"], "datalen": len(r["data"]), "bytes": r["bytes"][:10]}
               for r in (calls[0], calls[len(calls) // 3], calls[len(calls) // 2], calls[-1])])
    ctx.log("C15: %d calls + %d swept sequence numbers, %d rejected" % (len(calls), nsweep, len(bad)))

    def confirm(f):
        return _rerun(ctx, f.payload["record"])[0]
    confirm.in_context = lambda before, f: _rerun(ctx, f.payload["record"], before)[0]
    ctx.report(fails, confirm)


def replay(ctx, payload):
    ok, new, info = _rerun(ctx, payload["payload"]["record"], payload["payload"].get("context") or ())
    print(json.dumps({"info": info})[:3000])
    return ok
