"""C03, exhaustive part: all legal VLQ values through the public API (binding X)."""
import json
import os
from vlib.engine import Failure, Machinery


def _sweep(ctx, frm, to, nrand, nsamples):
    vh = ctx.build()
    d = ctx.sub("vlq")
    out, samples = os.path.join(d, "res.json"), os.path.join(d, "samples.ndjson")
    ctx.run([vh, "vlq-sweep", "-from", str(frm), "-to", str(to), "-rand", str(nrand), "-seed", str(ctx.seed),
             "-samples", samples, "-nsamples", str(nsamples), "-out", out], timeout=7200)
    res = json.load(open(out))
    recs = [json.loads(x) for x in open(samples)]
    return res, recs


def run(ctx):
    q = ctx.quick
    res, recs = _sweep(ctx, 0, 0 if q else 1 << 28, 65536, 20000 if q else 100000)
    if res["fails"] and not res["bad"]:
        raise Machinery("vlq sweep could not run: %s" % res["fails"])
    bad = ctx.validate("Trace_Vlq", recs)
    ctx.cov["vlq_sweep"] = {"values_checked": res["checked"], "range": res["range"], "exhaustive_2^28": (not q),
                            "samples_judged_by_TLC": len(recs)}
    if not q:
        ctx.cov["exhaustive"] = True
    ctx.count(res["checked"])
    ctx.log("vlq sweep: %d values, %d bad (go), %d samples to TLC, %d rejected" % (res["checked"], len(res["bad"]), len(recs), len(bad)))
    fails = []
    for idx, info in bad:
        r = recs[idx]
        fails.append(Failure("vlq:len=%d" % len(r["bytes"]), "VLQ of delta %d written as %s (expected %s), read back %d" %
                             (r["n"], r["bytes"], info["expected"], r["back"]), {"family": "vlq", "n": r["n"]}))
    if res["bad"] and not fails:
        raise Machinery("sweep flagged values that TLC accepts: transcription of IsCanonicalVlq is wrong: %s" % res["bad"][:3])
    return fails


def confirm(ctx, f):
    return replay(ctx, {"payload": f.payload})


def replay(ctx, payload):
    n = payload["payload"]["n"]
    res, recs = _sweep(ctx, n, n + 1, 0, 100)
    recs = [r for r in recs if r["n"] == n]
    return bool(ctx.validate("Trace_Vlq", recs[:1], shards=1))
