"""C19 -- the midicat text line protocol is lossless and self-framing.

1. TLC model-checks spec/MC_MidicatLine (encoder, declarative grammar and character-level reader of spec/MidicatLine.tla
   agree; one result per line under every fragmentation; a malformed line gives Err and the next call starts at the
   next line).
2. G: the state graph of the small configuration (Size = "g") is dumped; every initial state carries a text made by the
   specification (round trips and every single mutation of the property's kinds); each text is fed to the REAL
   midicat.ReadAndConvert along fragmentation paths of that graph (edges Frag(k)) and with the fixed reader modes.
3. T: seeded random record sequences (ts over int32, 1..2000 bytes), written with the driver's format verbs, mutated,
   fragmented, read back by the real code.
Every recorded experiment (2 and 3) is judged by TLC with spec/Trace_MidicatLine.tla.
"""
import json
import os
import random
from collections import Counter

from vlib.engine import Failure, Machinery, parse_dot

PKG = "./cmd/vh_midicat"
TRACE = "Trace_MidicatLine"


def gen(ctx, n, seed, maxlines):
    vh = ctx.build(PKG)
    out = os.path.join(ctx.sub("midicat_gen"), "gen.ndjson")
    ctx.run([vh, "midicat-gen", "-seed", str(seed), "-n", str(n), "-maxlines", str(maxlines), "-out", out], timeout=3600)
    return [json.loads(x) for x in open(out)]


def execute(ctx, exps):
    """run experiments (text, mode, sizes given) on the real code; returns them with fresh results"""
    vh = ctx.build(PKG)
    d = ctx.sub("midicat_rerun")
    i, o = os.path.join(d, "in.ndjson"), os.path.join(d, "out.ndjson")
    with open(i, "w") as f:
        for e in exps:
            f.write(json.dumps(e, separators=(",", ":")) + "\n")
    ctx.run([vh, "midicat-rerun", "-in", i, "-out", o], timeout=3600)
    return [json.loads(x) for x in open(o)]


def seg_kind_at(rec, pos):
    """which segment of the text holds offset pos (only used to name the class of a rejected experiment)"""
    off = 0
    for g in rec.get("segs") or []:
        r = rec["recs"][g["orig"] - 1]
        ln = len(str(r["ts"])) + 1 + 2 * len(r["b"]) + 1
        if g["kind"] in ("oddhex", "nosep", "noterm"):
            ln -= 1
        if pos < off + ln:
            return g["kind"]
        off += ln
    for f in rec.get("feat") or []:
        if f.startswith("src:"):
            return f[4:]
    return "end"


def signature(rec, info):
    got, want = info.get("got", {}), info.get("want", {})
    if got.get("kind") == "panic":
        return "panic:" + (got.get("msg") or "")[:140]
    if info.get("stuck"):
        return "no-progress"
    where = seg_kind_at(rec, info.get("from", 0))
    if got.get("kind") == "err" and want.get("kind") == "rec":
        if rec["mode"] == "dataeof" and want.get("end") == len(rec["text"]):
            return "lost-record:data-with-eof"
        return "lost-record:" + where
    if got.get("kind") == "rec" and want.get("kind") == "err":
        return "record-from-malformed:%s%s" % (where, "" if info.get("atLineStart") else ":midline")
    if got.get("kind") == "rec" and want.get("kind") == "rec":
        return "wrong-record:" + where
    if got.get("kind") == "rec":
        return "record-at-eof"
    if not info.get("ended"):
        return "no-final-error"
    return "framing:" + where


def show(chars, limit=70):
    s = "".join(chr(c) if 32 <= c < 127 else ("\\n" if c == 10 else "\\x%02x" % c) for c in chars[:limit])
    return '"%s%s"' % (s, "..." if len(chars) > limit else "")


def describe(rec, info):
    got, want = info.get("got", {}), info.get("want", {})
    return ("C19: text[%d]=%s mode=%s call #%s started at offset %s (%s): specification says %s%s, real code returned %s%s pos=%s; line there: %s"
            % (len(rec["text"]), show(rec["text"]), rec["mode"], info.get("call"), info.get("from"),
               "line start" if info.get("atLineStart") else "inside a line",
               want.get("kind"), " ts=%s %d bytes" % (want.get("ts"), want.get("nb", 0)) if want.get("kind") == "rec" else "",
               got.get("kind"), " ts=%s %d bytes %s" % (got.get("ts"), got.get("nb", 0), got.get("first")) if got.get("kind") == "rec" else " (%s)" % got.get("msg"),
               got.get("pos"), show(info.get("line") or [])))


def validate(ctx, recs):
    bad = ctx.validate(TRACE, recs)
    fails = []
    for idx, info in bad:
        r = recs[idx]
        if not info or info.get("genbug"):
            raise Machinery("generator produced an experiment outside the property's domain (text/segments/promise mismatch): id=%s text=%s segs=%s"
                            % (r.get("id"), show(r["text"], 200), r.get("segs")))
        fails.append(Failure(signature(r, info), describe(r, info), {"family": "midicat", "record": r}))
    fails.sort(key=lambda f: len(f.payload["record"]["text"]))
    return fails


def rerun(ctx, rec):
    new = execute(ctx, [rec])[0]
    bad = ctx.validate(TRACE, [new], shards=1)
    if bad and (not bad[0][1] or bad[0][1].get("genbug")):
        raise Machinery("replayed experiment is outside the property's domain: %s" % show(rec["text"], 200))
    return bool(bad), new, (bad[0][1] if bad else None)


def confirm_factory(ctx):
    def confirm(f):
        ok, _, _ = rerun(ctx, f.payload["record"])
        return ok
    return confirm


def replay(ctx, payload):
    if payload["payload"].get("family") == "drv-lines":
        from props import mcat
        from vlib.engine import Failure
        return mcat.confirm_lines(ctx, Failure("", "", payload["payload"]))
    ok, new, info = rerun(ctx, payload["payload"]["record"])
    print(json.dumps({"results": new["res"][:12], "info": info})[:3000])
    return ok


def graph_experiments(ctx):
    """binding G: texts and fragmentation paths taken from TLC's state graph of MC_MidicatLine (Size = "g")"""
    r = ctx.tlc("MC_MidicatLine", "MC_MidicatLine_g.cfg", dump=True, workers=8)
    g = parse_dot(r.dot, keep={"text", "pos", "done", "src"})
    os.remove(r.dot)
    rnd = random.Random(ctx.seed)
    exps, seen = [], set()
    npaths = 1 if ctx.quick else 4
    for nid in g["inits"]:
        text = g["nodes"][nid]["text"]
        key = tuple(text)
        if key in seen:          # the two lc variants of a case share the text
            continue
        seen.add(key)
        base = {"raw": True, "recs": [], "segs": [], "text": text, "res": [], "stuck": False,
                "feat": ["graph", "src:" + g["nodes"][nid]["src"]]}
        for mode in ("one", "whole", "dataeof"):
            sizes = [len(text)] if (mode == "dataeof" and text) else []
            exps.append(dict(base, mode=mode, sizes=sizes))
        for _ in range(npaths):   # a path init -> ... -> Eof of the graph = one fragmentation
            cur, sizes = nid, []
            while True:
                out = [e for e in g["edges"].get(cur, []) if e[0] == "Frag"]
                if not out:
                    break
                e = rnd.choice(out)
                sizes.append(g["nodes"][e[2]]["pos"] - g["nodes"][cur]["pos"])
                cur = e[2]
            if sum(sizes) != len(text):
                raise Machinery("graph path does not cover the text")
            exps.append(dict(base, mode=rnd.choice(["rand", "dataeof"]), sizes=sizes))
    for i, e in enumerate(exps):
        e["id"] = 1000000 + i
    ne = sum(len(v) for v in g["edges"].values())
    ctx.log("graph: %d nodes, %d edges, %d initial, %d distinct texts -> %d experiments" % (len(g["nodes"]), ne, len(g["inits"]), len(seen), len(exps)))
    ctx.cov["exhaustive_walk"] = {"graph_nodes": len(g["nodes"]), "graph_edges": ne, "texts": len(seen), "experiments": len(exps)}
    return exps


def run(ctx):
    q = ctx.quick
    ctx.cov["rule"] = ("experiment = (record sequence, mutations, fragmentation) fed as text to the real midicat.ReadAndConvert, successive calls until EOF; "
                       "T: seeded random (ts over int32 incl. extremes, 1..2000 bytes, mutation kinds oddhex/nonhex/nosep/noterm/lower, readers one/whole/rand/data+EOF); "
                       "G: every text of TLC's MC_MidicatLine(Size=g) graph (all round trips and all single mutations of small records) along graph fragmentation paths; "
                       "distinct by (text, mode, sizes); non-trivial = at least one line")
    ctx.cov["checker_cmd"] = ("tlc MC_MidicatLine (invariants OnePerLine, Lossless, CallLevel, Grammar, MutHasError) ; "
                              "tlc -dump dot MC_MidicatLine_g.cfg -> vh_midicat midicat-rerun ; vh_midicat midicat-gen ; tlc Trace_MidicatLine")
    ctx.cov["trusted_base"] = ["TLC", "spec/MidicatLine.tla as the reading of the line grammar (DESIGN C.8)",
                               "Go harness recording and its fragmenting io.Reader (cmd/vh_midicat); the text it makes is re-derived by TLC from recs+segs (SegsText) in every experiment"]
    ctx.assumptions += ["lower-case hex digits may be accepted or rejected (one choice per experiment)",
                        "how much of a malformed line an erroring call consumes is not prescribed; a record is only accepted at a line start",
                        "readers returning (0, nil) and white space other than SP/LF are not generated",
                        "lines are written by the harness with the out port's format verbs \"%d %X\\n\" (the midicatdrv package cannot be imported without a midicat binary); TLC checks the text against Line(ts, bytes)"]
    # 1. the specification satisfies the property on the model
    ctx.model_check("MC_MidicatLine", "MC_MidicatLine.cfg" if q else "MC_MidicatLine_thorough.cfg", coverage=False, timeout=1500, heap="4g")
    fails = []
    # 2. G: TLC-made texts and fragmentation paths through the real code
    gex = execute(ctx, graph_experiments(ctx))
    fails += validate(ctx, gex)
    ctx.count(len(gex), [(tuple(r["text"]), r["mode"], tuple(r["sizes"])) for r in gex if r["text"]])
    # 3. T: random records
    recs = gen(ctx, 800 if q else 40000, ctx.seed, 6 if q else 12)
    feats = Counter(f for r in recs for f in r["feat"])
    ctx.cov["features"] = dict(feats)
    need = ["wellformed", "neg", "long", "mut:oddhex", "mut:nonhex", "mut:nosep", "mut:noterm", "mode:one", "mode:rand", "mode:dataeof"]
    if [f for f in need if not feats.get(f)]:
        raise Machinery("generator did not cover %s" % [f for f in need if not feats.get(f)])
    fails += validate(ctx, recs)
    ctx.count(len(recs), [(tuple(r["text"]), r["mode"], tuple(r["sizes"])) for r in recs if r["text"]],
              [{"text": show(r["text"], 60), "segs": [g["kind"] for g in r["segs"]], "mode": r["mode"],
                "res": [x["kind"] for x in r["res"]]} for r in recs[:4]])
    if fails:
        ctx.log("rejected experiments by class:", dict(Counter(f.signature for f in fails)))
    # the real process-backed ports: out.go writes the lines, in.go reads them (stand-in helper pair in between)
    from props import mcat
    fails += mcat.run_lines(ctx)
    cf = confirm_factory(ctx)
    ctx.report(fails, lambda f: mcat.confirm_lines(ctx, f) if f.payload.get("family") == "drv-lines" else cf(f))
