"""C13 -- recording a live stream yields a valid file with faithful timing (Track.RecordFrom)."""
import json
import os
from vlib.engine import Failure, Machinery

PKG = "./cmd/vh_recorder"
INPUTS = ("id", "res", "bpm100", "lead", "chunks", "feat", "via", "extra", "extraat", "prior")


def sig_of(info, rec):
    """class signature of a rejected session"""
    if rec.get("panic"):
        p = rec["panic"]
        p = p.split(": ", 1)[1] if p.startswith("chunk ") else p
        return "panic:" + p[:160]
    if info.get("record"):
        return "record:" + info["record"]
    if info.get("file"):
        return "file:" + info["file"].split(":")[0]
    return "read:" + info.get("read", "?")


def gen(ctx, n, seed, nslow=0):
    vh = ctx.build(PKG)
    out = os.path.join(ctx.sub("recgen"), "rec.ndjson")
    ctx.run([vh, "rec-gen", "-seed", str(seed), "-n", str(n), "-nslow", str(nslow), "-out", out])
    return [json.loads(x) for x in open(out)]


def rerun(ctx, rec):
    """re-execute one session alone (inputs only) on the real code and re-judge it with TLC"""
    vh = ctx.build(PKG)
    d = ctx.sub("replay")
    i, o = os.path.join(d, "in.ndjson"), os.path.join(d, "out.ndjson")
    open(i, "w").write(json.dumps({k: rec[k] for k in INPUTS}) + "\n")
    ctx.run([vh, "rec-rerun", "-in", i, "-out", o])
    new = json.loads(open(o).read())
    bad = ctx.validate("Trace_Recorder", [new], shards=1)
    if bad and bad[0][1].get("genbug"):
        raise Machinery("replayed session lies outside the property's domain")
    return bool(bad), new, (bad[0][1] if bad else None)


def hexs(bs):
    return " ".join("%02X" % b for b in bs)


def validate(ctx, recs):
    bad = ctx.validate("Trace_Recorder", recs)
    fails = []
    for idx, info in bad:
        r = recs[idx]
        if info.get("genbug"):
            raise Machinery("generator produced a session outside the domain (deltas not representable): id=%s res=%s bpm100=%s"
                            % (r["id"], r["res"], r["bpm100"]))
        stream = [b for c in r["chunks"] for b in c["bytes"]]
        fails.append(Failure(sig_of(info, r),
                             "C13: session id=%s res=%s bpm=%s/100 chunks=%d stream=[%s] dts=%s -> track=%s ; record: %r ; file: %r ; read: %r (%s) ; panic=%r"
                             % (r["id"], r["res"], r["bpm100"], len(r["chunks"]), hexs(stream[:48]) + (" .." if len(stream) > 48 else ""),
                                [c["dt"] for c in r["chunks"]][:24],
                                json.dumps([[e["d"], hexs(e["m"])] for e in r["track"]][:12]),
                                info.get("record"), info.get("file"), info.get("read"), (info.get("readmsg") or "")[:120], r["panic"]),
                             {"family": "recorder", "session": {k: r[k] for k in INPUTS}}))
    # prefer short sessions for reporting
    fails.sort(key=lambda f: sum(len(c["bytes"]) for c in f.payload["session"]["chunks"]))
    return fails


def run(ctx):
    q = ctx.quick
    ctx.cov["rule"] = ("sessions = live byte streams of C04/C06's generators (channel messages with running-status elision, real-time bytes "
                       "anywhere, system common, sysex, active sensing, incomplete messages, stray data, garbage), any chunking, inter-arrival "
                       "times 0..60000 ms on testdrv's virtual clock, tempo 20.00..400.00 bpm, resolution 24..15360, recorded by the real "
                       "Track.RecordFrom, closed, written by WriteTo, read by ReadFrom; distinct by content; non-trivial = the stream holds a "
                       "channel message AND something that is not one (real-time / system common / sysex)")
    ctx.cov["checker_cmd"] = "tlc MC_Recorder (Valid, OnlyChannel, KeepIsNeeded, TicksExact) ; vh_recorder rec-gen ; tlc Trace_Recorder"
    ctx.cov["trusted_base"] = ["TLC", "spec/Recorder.tla over LiveDecoder.tla + SmfParse.tla + SmfWrite.tla", "Go harness recording (vh_recorder)"]
    ctx.assumptions += ["arrival stamps are derived from the receiver model (RecordFrom owns the listener): stamp = virtual clock of the chunk "
                        "that completed the message; only differences are used, the first delta is unconstrained",
                        "the first chunk is sent >= 1000 virtual ms after RecordFrom so that testdrv's wall-clock origin cannot make the first stamp negative",
                        "sessions are bounded so that every delta fits an SMF delta time (< 2^28 ticks) and 2^24 ms",
                        "the initial tempo event is FF 51 03 with the recording tempo within one microsecond per quarter note"]
    ctx.model_check("MC_Recorder", "MC_Recorder_quick.cfg" if q else "MC_Recorder.cfg", timeout=1500)
    recs = gen(ctx, 1000 if q else 12000, ctx.seed + 13000, 48 if q else 600)
    fails = validate(ctx, recs)
    nev = sum(max(0, len(r["track"]) - 2) for r in recs)
    npos = sum(1 for r in recs for e in r["track"][2:-1] if e["d"] != [0])
    ctx.log("recorded sessions: %d, with >= 2 recorded events: %d; recorded events: %d, timed deltas > 0: %d"
            % (len(recs), sum(1 for r in recs if len(r["track"]) >= 4), nev, npos))
    nt = [r for r in recs if "channel" in r["feat"] and ({"realtime", "syscommon", "sysex"} & set(r["feat"]))]
    ctx.count(len(recs), [hash(str(r["chunks"])) for r in nt],
              [{"res": r["res"], "bpm100": r["bpm100"], "chunks": r["chunks"][:4], "track": r["track"][:4], "feat": r["feat"]} for r in recs[:3]])

    batch = {"n": 1000 if q else 12000, "seed": ctx.seed + 13000}

    def confirm(f):
        ok, _, _ = rerun(ctx, f.payload["session"])
        if not ok and f.payload["session"]["via"] == "track":
            # not reproducible alone: the session may depend on what the process did before it (state the library keeps
            # between recordings).  Re-execute it in its context -- the same batch from the same seed -- and judge it again.
            ok, _, _ = rerun_in_batch(ctx, f.payload["session"]["id"], batch)
            if ok:
                f.payload["batch"] = batch
                f.what += " ; reproduces only after the sessions that precede it in the batch (state kept between recordings)"
        return ok
    ctx.report(fails, confirm)


def rerun_in_batch(ctx, sid, batch):
    recs = gen(ctx, batch["n"], batch["seed"], 0)
    new = [r for r in recs if r["id"] == sid]
    bad = ctx.validate("Trace_Recorder", new, shards=1)
    return bool(bad), (new[0] if new else None), (bad[0][1] if bad else None)


def replay(ctx, payload):
    pl = payload["payload"]
    if pl.get("batch"):
        ok, new, info = rerun_in_batch(ctx, pl["session"]["id"], pl["batch"])
    else:
        ok, new, info = rerun(ctx, pl["session"])
    print(json.dumps({"reexecuted": new, "verdict": info})[:3000])
    return ok
