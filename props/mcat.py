def run(ctx):
    return []
