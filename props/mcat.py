"""C17, process-backed driver: random histories on the real midicatdrv against the stand-in helper, under -race."""
import glob
import json
import os
import subprocess
from vlib.engine import Failure, Machinery, goenv


def _env(ctx, d):
    hd = ctx._harness_copy()
    bindir = os.path.join(ctx.scratch, "standin_bin")
    if not os.path.exists(os.path.join(bindir, "midicat")):
        os.makedirs(bindir, exist_ok=True)
        p = subprocess.run(["go", "build", "-o", os.path.join(bindir, "midicat"), "./cmd/midicat_standin"], cwd=hd, env=goenv(), capture_output=True, text=True)
        if p.returncode != 0:
            raise Machinery("stand-in helper build failed: " + p.stderr)
    e = dict(os.environ)
    e["PATH"] = bindir + ":" + e["PATH"]
    e["VERIF_SOCK"] = os.path.join(d, "s.sock")
    e["VERIF_ACK"] = os.path.join(d, "ack")
    e["GORACE"] = "log_path=%s halt_on_error=0" % os.path.join(d, "race")
    return e


def _collect(d, out):
    recs = [json.loads(x) for x in open(out)] if os.path.exists(out) else []
    race = ""
    for f in glob.glob(os.path.join(d, "race.*")):
        race += open(f).read()
    return recs, race


def _run(ctx, args, d):
    vh = ctx.build("./cmd/vh_mcat", race=True)
    e = _env(ctx, d)
    p = subprocess.run([vh] + args, env=e, capture_output=True, text=True, timeout=1800)
    if p.returncode not in (0, 66):
        raise Machinery("vh_mcat failed rc=%s\n%s\n%s" % (p.returncode, p.stdout[-2000:], p.stderr[-4000:]))
    return p


def gen(ctx, seed, n, steps):
    d = ctx.sub("mcat")
    out = os.path.join(d, "hist.ndjson")
    _run(ctx, ["gen", "-seed", str(seed), "-n", str(n), "-steps", str(steps), "-out", out], d)
    recs, race = _collect(d, out)
    return recs, race, len(recs) < n


def rerun(ctx, i, o):
    d = ctx.sub("mcatre")
    _run(ctx, ["rerun", "-in", i, "-out", o], d)
    recs, race = _collect(d, o)
    if race and recs:
        recs[-1]["race"] = race[:3000]
        with open(o, "w") as f:
            for r in recs:
                f.write(json.dumps(r) + "\n")


def run(ctx):
    from props import c17
    q = ctx.quick
    hists, fails = [], []
    for s in ([ctx.seed] if q else [ctx.seed + i for i in range(4)]):
        recs, race, short = gen(ctx, s + 700, 40 if q else 200, 30)
        if race and recs:
            recs[-1]["race"] = race[:3000]     # attributed to the batch; replay re-runs the last history
        hists += recs
    for h in hists:
        h.setdefault("race", "")
    fails = c17.validate(ctx, hists)
    nsend = sum(1 for h in hists for s in h["steps"] if s["fn"] in ("Send", "SendPar"))
    ctx.log("midicatdrv: %d histories, %d calls, %d sends, %d rejected" % (len(hists), sum(len(h["steps"]) for h in hists), nsend, len(fails)))
    ctx.count(len(hists), [json.dumps([[s["fn"], s["m"]] for s in h["steps"]]) for h in hists if any(s["dlv"] for s in h["steps"])],
              [{"kind": h["kind"], "steps": [[s["fn"], s["m"] if s["fn"] == "Send" else s["msgs"] if s["fn"] == "SendPar" else "", s["ret"], s["dlv"]] for s in h["steps"][:12]]} for h in hists[:2]])
    return fails
