"""C17, process-backed driver: random histories on the real midicatdrv against the stand-in helper, under -race."""
import glob
import json
import os
import subprocess
from vlib.engine import Failure, Machinery, goenv


def _env(ctx, d):
    hd = ctx._harness_copy()
    bindir = os.path.join(ctx.scratch, "standin_bin")
    if not os.path.exists(os.path.join(bindir, "midicat")):
        os.makedirs(bindir, exist_ok=True)
        p = subprocess.run(["go", "build", "-o", os.path.join(bindir, "midicat"), "./cmd/midicat_standin"], cwd=hd, env=goenv(), capture_output=True, text=True)
        if p.returncode != 0:
            raise Machinery("stand-in helper build failed: " + p.stderr)
    e = dict(os.environ)
    e["PATH"] = bindir + ":" + e["PATH"]
    e["VERIF_SOCK"] = os.path.join(d, "s.sock")
    e["VERIF_ACK"] = os.path.join(d, "ack")
    e["VERIF_LINES"] = os.path.join(d, "lines")
    e["GORACE"] = "log_path=%s halt_on_error=0" % os.path.join(d, "race")
    return e


def _collect(d, out):
    recs = [json.loads(x) for x in open(out)] if os.path.exists(out) else []
    race = ""
    for f in glob.glob(os.path.join(d, "race.*")):
        race += open(f).read()
    return recs, race


def _run(ctx, args, d, nohook=False):
    vh = ctx.build("./cmd/vh_mcat", race=True)
    e = _env(ctx, d)
    if nohook:
        e["VERIF_NOHOOK"] = "1"
    p = subprocess.run([vh] + args, env=e, capture_output=True, text=True, timeout=1800)
    if p.returncode not in (0, 66):
        raise Machinery("vh_mcat failed rc=%s\n%s\n%s" % (p.returncode, p.stdout[-2000:], p.stderr[-4000:]))
    return p


def gen(ctx, seed, n, steps, nohook=False):
    d = ctx.sub("mcat")
    out = os.path.join(d, "hist.ndjson")
    _run(ctx, ["gen", "-seed", str(seed), "-n", str(n), "-steps", str(steps), "-out", out], d, nohook=nohook)
    recs, race = _collect(d, out)
    return recs, race, len(recs) < n   # fewer records: the harness stopped early after a hung call or three failed histories


def rerun(ctx, i, o):
    d = ctx.sub("mcatre")
    _run(ctx, ["rerun", "-in", i, "-out", o], d)
    recs, race = _collect(d, o)
    if race and recs:
        recs[-1]["race"] = race[:3000]
        with open(o, "w") as f:
            for r in recs:
                f.write(json.dumps(r) + "\n")


def run(ctx):
    from props import c17
    q = ctx.quick
    hists, fails = [], []
    for s in ([ctx.seed] if q else [ctx.seed + i for i in range(4)]):
        recs, race, short = gen(ctx, s + 700, 40 if q else 200, 30)
        if race and recs:
            recs[-1]["race"] = race[:3000]     # attributed to the batch; replay re-runs the last history
        hists += recs
    # hookless batches, for the race detector alone (the tracer's lock orders the goroutines and hides races): a race report
    # becomes one record that carries nothing but the report and the batch it came from
    for s in ([ctx.seed] if q else [ctx.seed + i for i in range(4)]):
        n, steps = (25, 30) if q else (120, 30)
        _, race, _ = gen(ctx, s + 750, n, steps, nohook=True)
        if race:
            hists.append({"id": 900000 + s, "kind": "midicat", "steps": [], "race": race[:3000], "events": [],
                          "note": "nohook seed=%d n=%d steps=%d" % (s + 750, n, steps)})
    for h in hists:
        h.setdefault("race", "")
        if not h.get("events"):
            h["events"] = []
    fails = c17.validate(ctx, hists)
    nsend = sum(1 for h in hists for s in h["steps"] if s["fn"] in ("Send", "SendPar"))
    ctx.log("midicatdrv: %d histories, %d calls, %d sends, %d rejected" % (len(hists), sum(len(h["steps"]) for h in hists), nsend, len(fails)))
    ctx.count(len(hists), [json.dumps([[s["fn"], s["m"]] for s in h["steps"]]) for h in hists if any(s["dlv"] for s in h["steps"])],
              [{"kind": h["kind"], "steps": [[s["fn"], s["m"] if s["fn"] == "Send" else s["msgs"] if s["fn"] == "SendPar" else "", s["ret"], s["dlv"]] for s in h["steps"][:12]]} for h in hists[:2]])
    return fails


def run_filter(ctx):
    """C14 on midicatdrv's own copy of the listen-option filter: twin histories, relation judged by TLC."""
    q = ctx.quick
    d = ctx.sub("mcatf")
    out = os.path.join(d, "hist.ndjson")
    n = 24 if q else 150
    _run(ctx, ["filter", "-seed", str(ctx.seed + 900), "-n", str(n), "-out", out], d)
    recs, race = _collect(d, out)
    if len(recs) < 2 * n:
        raise Machinery("midicatdrv filter histories did not complete (%d of %d): a call hung or panicked; that is C17's subject" % (len(recs), 2 * n))
    twins = []
    for i in range(0, len(recs), 2):
        a, b = recs[i], recs[i + 1]
        pan = "".join(s["pan"] for s in a["steps"] + b["steps"]) + ("timeout" if any(s["timeout"] for s in a["steps"] + b["steps"]) else "")
        twins.append({"kind": "twin", "id": a["id"], "opts": a["steps"][1]["opts"], "sends": [s["m"] for s in a["steps"] if s["fn"] == "Send"],
                      "own": [s["dlv"] for s in a["steps"]], "all": [s["dlv"] for s in b["steps"]], "pan": pan, "hist": a["steps"]})
    bad = ctx.validate("Trace_Ports", twins)
    ctx.log("midicatdrv filter twins: %d pairs, %d rejected" % (len(twins), len(bad)))
    fails = []
    for idx, info in bad:
        t = twins[idx]
        fails.append(Failure("mcat-filter", "midicatdrv listen options %s: sends %s delivered %s, with all options on %s" %
                             (t["opts"], t["sends"], [[d["m"] for d in x] for x in t["own"] if x], [[d["m"] for d in x] for x in t["all"] if x]),
                             {"family": "mcat-filter", "seed": ctx.seed, "twin": t}))
    ctx.count(len(twins), ["%s%s" % (t["opts"], t["sends"]) for t in twins if any(m >= 240 for m in t["sends"])], [dict((k, t[k]) for k in ("opts", "sends", "own")) for t in twins[:1]])
    return fails


def confirm_filter(ctx, f):
    t = f.payload["twin"]
    d = ctx.sub("mcatfre")
    i, o = os.path.join(d, "in.ndjson"), os.path.join(d, "out.ndjson")
    allon = {"sysex": True, "as": True, "tc": True}
    with open(i, "w") as fh:
        for opts in (t["opts"], allon):
            steps = [dict(s) for s in t["hist"]]
            steps[1]["opts"] = opts
            fh.write(json.dumps({"id": 0, "kind": "midicat", "steps": steps, "race": "", "note": ""}) + "\n")
    _run(ctx, ["rerun", "-in", i, "-out", o], d)
    recs, _ = _collect(d, o)
    if len(recs) < 2:
        return False
    tw = dict(t, own=[s["dlv"] for s in recs[0]["steps"]], all=[s["dlv"] for s in recs[1]["steps"]])
    return bool(ctx.validate("Trace_Ports", [tw], shards=1))


def run_lines(ctx):
    """C19 on the real ports: out port -> stand-in helper pair -> in port; lines and received records judged by TLC."""
    q = ctx.quick
    d = ctx.sub("mcatl")
    out = os.path.join(d, "drv.ndjson")
    n = 25 if q else 300
    _run(ctx, ["lines", "-seed", str(ctx.seed + 950), "-n", str(n), "-out", out], d)
    recs, race = _collect(d, out)
    bad = ctx.validate("Trace_MidicatDrv", recs)
    ctx.log("midicatdrv out->in line experiments: %d (%d messages), %d rejected" % (len(recs), sum(len(r["msgs"]) for r in recs), len(bad)))
    fails = []
    for idx, info in bad:
        r = recs[idx]
        fails.append(Failure("drv-lines:%s" % ("pan" if r["pan"] else "lines" if not info["linesOk"] else "back"),
                             "midicatdrv out port wrote %s for messages %s; in port delivered %s; %s" %
                             ([bytes(x).decode("latin1")[:60] for x in r["lines"][:3]], [x[:12] for x in r["msgs"][:3]], [x[:12] for x in r["got"][:3]], r["pan"]),
                             {"family": "drv-lines", "record": {"ev": "drv", "id": r["id"], "msgs": r["msgs"], "par": r.get("par", 0)}}))
    ctx.count(sum(len(r["msgs"]) for r in recs), [str(r["msgs"]) for r in recs if any(len(m) > 100 for m in r["msgs"])],
              [{"msgs": [m[:8] for m in r["msgs"][:2]], "lines": [bytes(x).decode("latin1")[:40] for x in r["lines"][:2]]} for r in recs[:1]])
    return fails


def confirm_lines(ctx, f):
    d = ctx.sub("mcatlre")
    i, o = os.path.join(d, "in.ndjson"), os.path.join(d, "out.ndjson")
    open(i, "w").write(json.dumps(f.payload["record"]) + "\n")
    for _ in range(5 if f.payload["record"].get("par", 0) > 1 else 1):     # concurrent senders: schedule dependent
        _run(ctx, ["lines-rerun", "-in", i, "-out", o], d)
        recs, _ = _collect(d, o)
        if recs and ctx.validate("Trace_MidicatDrv", recs[:1], shards=1):
            return True
    return False


def rerun_nohook(ctx, h):
    """a race report of a hookless batch: run the same batch again (up to three times) and look for a report"""
    import re
    m = re.match(r"nohook seed=(\d+) n=(\d+) steps=(\d+)", h.get("note", ""))
    if not m:
        return False, h
    for _ in range(3):
        _, race, _ = gen(ctx, int(m.group(1)), int(m.group(2)), int(m.group(3)), nohook=True)
        if race:
            return True, dict(h, race=race[:3000])
    return False, h
